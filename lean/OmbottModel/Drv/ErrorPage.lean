import OmbottModel.Drv.Common
import OmbottModel.Model.ErrorPage
/-! Protocol lines `errorpage <op> …` (C20).  Text travels as hex of UTF-8 (`-` = empty),
optional text as `~` (None) or hex.  All lines are stateless. -/
namespace Drv.ErrorPage
open Py Drv Ombott.ErrorPage

def showF : Except FErr Str → String
  | .ok s => s!"ok {hexStr s}"
  | .error (.py e) => s!"err {e.name}"
  | .error .unsupported => "err unsupported"

def errOfName : String → Option Err
  | "ValueError" => some .valueError
  | "TypeError" => some .typeError
  | "KeyError" => some .keyError
  | "IndexError" => some .indexError
  | "UnicodeError" => some .unicodeError
  | "AttributeError" => some .attributeError
  | _ => none

/-- `ok:<hex>` or `err:<Name>` -/
def parseFullpath (s : String) : Option (Except Err Str) :=
  match s.splitOn ":" with
  | ["ok", h] => some (.ok (unhexStr h))
  | ["err", n] => (errOfName n).map .error
  | _ => none

def parseOutcome (s : String) : Option Outcome :=
  match s.splitOn ":" with
  | ["nf"] => some .notFound
  | ["na", a] => some (.notAllowed (unhexStr a))
  | ["raise", c, m, t] => some (.raises (unhexStr c) (unhexStr m) (unhexStr t))
  | ["reqerr", c, m, t] => some (.requestError c (unhexStr m) (unhexStr t))
  | ["iter", c, m, t] => some (.iterRaises (unhexStr c) (unhexStr m) (unhexStr t))
  | ["badtype", t] => some (.unsupportedType (unhexStr t))
  | ["abort", c, t] => c.toNat?.map fun n => .abort n (optStr t)
  | ["ok", b] => some (.ok (unhexStr b))
  | _ => none

def showOpt : Option Str → String
  | none => "~"
  | some s => hexStr s

def showParsed : Option (List (Str × Option Str)) → String
  | none => "none"
  | some [] => "some"
  | some l => "some " ++ ",".intercalate (l.map fun (k, v) => s!"{hexStr k}={showOpt v}")

def mkEnv (fproto scheme fhost host sname sport qs script fullpath : String) : Option UrlEnv := do
  let fp ← parseFullpath fullpath
  pure { fwdProto := optStr fproto, urlScheme := optStr scheme, fwdHost := optStr fhost,
         host := optStr host, serverName := optStr sname, serverPort := optStr sport,
         query := optStr qs, scriptName := optStr script, joinLib := fp }

def showResp (r : Resp) : String :=
  s!"status={hexStr r.status} ctype={hexStr r.ctype} body={hexStr r.body}"

def handle : List String → Option String
  | ["escape", s] => some (hexStr (pageEscape (unhexStr s)))
  | ["hescape", s] => some (hexStr (helperEscape (unhexStr s)))
  | ["repr", s] => some (hexStr (pyRepr isPrintable (unhexStr s)))
  | ["quote", s] => some (hexStr (urlquote (unhexStr s)))
  | ["dumps", b, e, t] =>
    some (hexStr (dumpsObj [("body".toList, optStr b), ("exception".toList, optStr e),
                            ("traceback".toList, optStr t)]))
  | ["jparse", s] => some (showParsed (jsonParse (unhexStr s)))
  | ["fmt", st, b, e, t, u, ln] =>
    some (showF (fmt { status := unhexStr st, body := unhexStr b, exception := unhexStr e,
                       traceback := unhexStr t, url := unhexStr u } .lit (unhexStr ln)))
  | ["render", dbg, st, b, e, t, u] =>
    some (showF (render isPrintable Ombott.Gen.errorTemplateLines
      { code := 0, status := unhexStr st, body := optStr b, exception := optStr e, traceback := optStr t }
      (unhexStr u) (bool01 dbg)))
  | ["fullpath", script, pathInfo, lib] => do
    let l ← parseFullpath lib
    pure (match fullpathOf (optStr script) (unhexStr pathInfo) l with
      | .ok u => s!"ok {hexStr u}"
      | .error e => s!"err {e.name}")
  | ["url", fproto, scheme, fhost, host, sname, sport, qs, script, fullpath, pathInfo] => do
    let env ← mkEnv fproto scheme fhost host sname sport qs script fullpath
    pure (match requestUrl env (unhexStr pathInfo) with
      | .ok u => s!"ok {hexStr u}"
      | .error e => s!"err {e.name}")
  | ["serve", dbg, head, raw, accept, fproto, scheme, fhost, host, sname, sport, qs, script, fullpath, oc,
     hfail, d1, d2] => do
    let env ← mkEnv fproto scheme fhost host sname sport qs script fullpath
    let o ← parseOutcome oc
    pure (showResp (serve isPrintable Ombott.Gen.errorTemplateLines (bool01 dbg)
      { rawPath := unhexBytes raw, env := env, accept := optStr accept, isHead := bool01 head }
      o (bool01 hfail) (unhexStr d1, unhexStr d2)))
  | _ => none

end Drv.ErrorPage
