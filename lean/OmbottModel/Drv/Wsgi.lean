import OmbottModel.Drv.Common
import OmbottModel.Model.Wsgi
import OmbottModel.Model.History
/-!
Protocol lines of the WSGI area (C03, C09).  Self-contained lines in prefix notation (every
constructor has a fixed arity, lists are preceded by their length):

```
wsgi serve <app> <req>                       one request on fresh slots (C03)
wsgi hist  <app> <nm> (cls code line body)*nm <n> <hreq>*n   a whole history on one application (C09);
                                             nm > 0: the application's own errors_map
wsgi setstatus <i n | s hex>                 the status setter alone

app     := <catchall> <nb> hook*  <na> hook*  <ne> (<code> errh)*
hook    := effs edit (ok | rr out | ex)          edit := n | rs | an | ro <j>
effs    := <n> eff*
eff     := st <code> | sl <hex> | sh <k> <v> | ah <k> <v> | bh <k> | ck <k> <v>
out     := f <kind> | t <hex> | b <hex> | r <0|1> rstate out | fl <id> <hc> <hi> <hex>
         | it <id> <hc> <n> item* | un <hex>
rstate  := <code> <hexline> <nh> (<k> <nv> (g <hex> | x)*)* <nc> (<k> <v>)*
item    := e | t <hex> | b <hex> | y out | rr out | ex | un <hex>
errh    := c out | bd | ex
req     := <id> <head> <fw> <pathok> <hexpath> <hexurlrepr> <json> arrival route
arrival := - | <byHook> <head> <hexpath> <hexurlrepr>      (the request before hook byHook rewrote it)
route   := h handler | nf | na <hexallow>
handler := effs (ret out | rr out | ex)
hreq    := req <bodyerr> <singleton> <ext>   singleton := - | <k>   (the outcome object is the application's module-level object k)
                         bodyerr := - | RequestError | BodySizeError | BodyParsingError, `+` appended when raised under `except ValueError`
                                             ext := - | <n> (<k> <v>)*   (probing handler)
```
-/
namespace Drv.Wsgi
open Py Drv Ombott.Wsgi

abbrev P := StateT (List String) Option

def tok : P String := do
  match (← get) with
  | [] => failure
  | t :: r => set r; pure t

def pNat : P Nat := do
  let t ← tok
  match t.toNat? with
  | some n => pure n
  | none => failure

def pBool : P Bool := do
  let t ← tok
  if t == "1" then pure true else if t == "0" then pure false else failure

def pStr : P Str := do pure (unhexStr (← tok))
def pBytes : P Bytes := do pure (unhexBytes (← tok))

def pMany {α} (p : P α) : Nat → P (List α)
  | 0 => pure []
  | n + 1 => do
    let a ← p
    let r ← pMany p n
    pure (a :: r)

def pList {α} (p : P α) : P (List α) := do
  let n ← pNat
  pMany p n

def pFalsy : P Falsy := do
  match (← tok) with
  | "str" => pure .str | "bytes" => pure .bytes | "none" => pure .none | "zero" => pure .zero
  | "list" => pure .list | "false" => pure .false_ | "dict" => pure .dict
  | _ => failure

def pHVal : P HVal := do
  match (← tok) with
  | "g" => do pure (.good (← pStr))
  | "x" => pure .bad
  | _ => failure

def pRState : P RState := do
  let code ← pNat
  let line ← pStr
  let hs ← pList (do
    let k ← pStr
    let vs ← pList pHVal
    pure (k, vs))
  let cs ← pList (do
    let k ← pStr
    let v ← pStr
    pure (k, v))
  pure { code := code, line := line, headers := hs, cookies := cs }

def pEff : P Eff := do
  match (← tok) with
  | "st" => do pure (.setStatus (.code (← pNat)))
  | "sl" => do pure (.setStatus (.line (← pStr)))
  | "sh" => do
    let k ← pStr
    let v ← pStr
    pure (.setHeader k v)
  | "ah" => do
    let k ← pStr
    let v ← pStr
    pure (.addHeader k v)
  | "bh" => do pure (.setBadHeader (← pStr))
  | "ck" => do
    let k ← pStr
    let v ← pStr
    pure (.setCookie k v)
  | _ => failure

mutual
partial def pOut : P Out := do
  match (← tok) with
  | "f" => do pure (.falsy (← pFalsy))
  | "t" => do pure (.text (← pStr))
  | "b" => do pure (.bytes (← pBytes))
  | "r" => do
    let e ← pBool
    let r ← pRState
    let b ← pOut
    pure (.resp e r b)
  | "fl" => do
    let id ← pNat
    let hc ← pBool
    let hi ← pBool
    let c ← pBytes
    pure (.file id hc hi c)
  | "it" => do
    let id ← pNat
    let hc ← pBool
    let n ← pNat
    let items ← pItems n
    pure (.iter id hc items)
  | "un" => do pure (.unsupported (← pStr))
  | _ => failure
partial def pItems : Nat → P (List Item)
  | 0 => pure []
  | n + 1 => do
    let a ← pItem
    let r ← pItems n
    pure (a :: r)
partial def pItem : P Item := do
  match (← tok) with
  | "e" => pure .empty
  | "t" => do pure (.text (← pStr))
  | "b" => do pure (.bytes (← pBytes))
  | "y" => do pure (.yields (← pOut))
  | "rr" => do pure (.raisesResp (← pOut))
  | "ex" => pure .raises
  | "un" => do pure (.unsup (← pStr))
  | _ => failure
end

def pEdit : P HookEdit := do
  match (← tok) with
  | "n" => pure .none
  | "rs" => pure .removeSelf
  | "an" => pure .addNew
  | "ro" => do pure (.removeOther (← pNat))
  | _ => failure

def pHook : P Hook := do
  let effs ← pList pEff
  let edit ← pEdit
  match (← tok) with
  | "ok" => pure { effs := effs, res := .ok, edit := edit }
  | "rr" => do pure { effs := effs, res := .raisesResp (← pOut), edit := edit }
  | "ex" => pure { effs := effs, res := .raises, edit := edit }
  | _ => failure

def pErrH : P ErrHandler := do
  match (← tok) with
  | "c" => do pure (.const (← pOut))
  | "bd" => pure .body
  | "ex" => pure .raises
  | _ => failure

def pApp : P (Bool × App) := do
  let ca ← pBool
  let b ← pList pHook
  let a ← pList pHook
  let e ← pList (do
    let c ← pNat
    let h ← pErrH
    pure (c, h))
  pure (ca, { before := b, after := a, errHandlers := e })

def pHandler : P Handler := do
  let effs ← pList pEff
  match (← tok) with
  | "ret" => do pure { effs := effs, res := .returns (← pOut) }
  | "rr" => do pure { effs := effs, res := .raisesResp (← pOut) }
  | "ex" => pure { effs := effs, res := .raises }
  | _ => failure

def pRoute : P Route := do
  match (← tok) with
  | "h" => do pure (.found (← pHandler))
  | "nf" => pure .notFound
  | "na" => do pure (.notAllowed (← pStr))
  | _ => failure

def pReq : P Req := do
  let id ← pNat
  let head ← pBool
  let fw ← pBool
  let pok ← pBool
  let path ← pStr
  let url ← pStr
  let js ← pBool
  let ar ← tok
  let arrival ← (if ar == "-" then pure none else do
    let k ← (match ar.toNat? with | some n => pure n | none => failure)
    let h ← pBool
    let p ← pStr
    let u ← pStr
    pure (some { isHead := h, path := p, urlRepr := u, byHook := k : Arrival }))
  let route ← pRoute
  pure { id := id, isHead := head, fileWrapper := fw, pathOK := pok, path := path, urlRepr := url,
         json := js, route := route, arrival := arrival }

def showEvent : Event → String
  | .before i => s!"b{i}"
  | .routed => "r"
  | .handler => "h"
  | .after j => s!"a{j}"
  | .close k => s!"c{k}"
  | .startResponse _ _ _ => "S"
  | .stderr => "e"

def showEvents (l : List Event) : String :=
  if l.isEmpty then "-" else ".".intercalate (l.map showEvent)

def showHdrs (l : List (Str × Str)) : String :=
  if l.isEmpty then "~" else ",".intercalate (l.map fun (k, v) => hexStr k ++ ":" ++ hexStr v)

def itemKind : BodyItem → Char
  | .chunk _ => 'c' | .str _ => 's' | .raises => 'x'

/-- item kinds with runs collapsed; iteration stops at the first `raises` -/
def shape : List BodyItem → List Char
  | [] => []
  | .raises :: _ => ['x']
  | a :: r =>
    match shape r with
    | c :: cs => if c == itemKind a then c :: cs else itemKind a :: c :: cs
    | [] => [itemKind a]

def bodyBytes : List BodyItem → Bytes
  | [] => []
  | .chunk b :: r => b ++ bodyBytes r
  | .str s :: r => utf8 s ++ bodyBytes r
  | .raises :: _ => []

def showStart (evs : List Event) : String :=
  let starts := evs.filterMap fun e =>
    match e with
    | .startResponse l h x => some (l, h, x)
    | _ => none
  match starts with
  | [(l, h, x)] => s!"n=1 status={hexStr l} hdrs={showHdrs h} exc={show01 x}"
  | l => s!"n={l.length}"

def showResult (evs : List Event) (res : Result) : String :=
  let sh := shape res.body
  s!"ev={showEvents evs} {showStart evs} body={hexBytes (bodyBytes res.body)} shape={if sh.isEmpty then "-" else String.ofList sh} cl={match res.fwCL with | some n => toString n | none => "-"}"

open Ombott.History in
def showResponse (r : Response) : String :=
  s!"{hexStr r.line}|{showHdrs r.hdrs}|{hexBytes r.body}"

open Ombott.History in
def pHReq : P HReq := do
  let r ← pReq
  let be ← tok
  let sg ← tok
  let ex ← tok
  let ext ← (if ex == "-" then pure none else do
    let n ← (match ex.toNat? with | some n => pure n | none => failure)
    let kv ← pMany (do
      let k ← pStr
      let v ← pStr
      pure (k, v)) n
    pure (some kv))
  let keeps := be.endsWith "+"
  let cls0 := if keeps then (be.dropEnd 1).toString else be
  -- `!Class`: raised directly by framework code (not through `_raise` / `errors_map`)
  let direct := cls0.startsWith "!"
  let cls := if direct then (cls0.drop 1).toString else cls0
  pure { req := r, bodyErr := if be == "-" then none else some cls, direct := direct, ctxKeeps := keeps, singleton := sg.toNat?, ext := ext }

def run {α} (p : P α) (toks : List String) : Option α :=
  match p.run toks with
  | some (a, []) => some a
  | _ => none

open Ombott.History in
def handle : List String → Option String
  | "serve" :: rest => do
    let ((ca, app), req) ← run (do
      let a ← pApp
      let r ← pReq
      pure (a, r)) rest
    let res := wsgiC ca app Slots.fresh (effective app req)
    let (hb, ha) := hooksAfter app req
    let hooks := s!" hooks={showNatList hb}/{showNatList ha}"
    pure (if res.escaped then s!"ev={showEvents (res.events ++ serverEvents res)} escaped" ++ hooks
          else showResult (res.events ++ serverEvents res) res ++ hooks)
  | "hist" :: rest => do
    let ((_, app), emap, reqs) ← run (do
      let a ← pApp
      let m ← pList (do
        let cls ← tok
        let code ← pNat
        let line ← pStr
        let body ← pStr
        pure (cls, code, line, body))
      let rs ← pList pHReq
      pure (a, m, rs)) rest
    let st0 := if emap.isEmpty then AppState.init else AppState.initWith emap
    let (st, outs) := serveAll app st0 reqs
    pure (";".intercalate (outs.map showResponse) ++ s!" retained={(retained st).length}")
  | ["setstatus", "i", n] => do
    let k ← n.toNat?
    pure (match statusSet (.code k) with
      | some (c, l) => s!"ok {c} {hexStr l}"
      | none => "err")
  | ["setstatus", "s", h] =>
    pure (match statusSet (.line (unhexStr h)) with
      | some (c, l) => s!"ok {c} {hexStr l}"
      | none => "err")
  | _ => none

end Drv.Wsgi
