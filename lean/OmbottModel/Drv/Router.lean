import OmbottModel.Drv.Common
import OmbottModel.Model.Router
import OmbottModel.Model.RouterBuiltin
import OmbottModel.Model.RouterBuiltinEnv
/-!
Protocol lines of the router model.  One line carries a whole history, so lines are stateless:

  `router hist <op> <op> …`          answer: one token per op, blank separated
  `router histb <op> <op> …`         the same with the handlers of `int`, `float`, `path` computed by the
                                     model (`Builtins.withBuiltin`): the shipped answers for those filters are
                                     not consulted, except `float(text)` for numerals outside the exactly
                                     modelled domain, looked up under `(float fid, matched text)`
  `router bfilter <fid> <text> <fc>` the concrete handler of the built-in filter `fid` on `text`
                                     (`fc` = the real `float(text)` as a value, used outside the exact domain)
                                     → `~` | `<val>:<consumed>`
  `router bfmt <val>`                the concrete `float` formatter → `ok.<hex>` | `none`

ops (fields separated by `|`, text as hex of UTF-8, `~` = empty list / None):
  `A|rule|methods|name|overwrite|cerr`   `RadiRouter.add`; handler id = position of the op.
        `cerr` = `fkey=ErrName;…` filters of this rule that `make_filter` refuses to build
        → `ok:<pattern>` | `err:<ErrName>`
  `R|path|methods|env`                   `RadiRouter.resolve(path, methods)`
        → `hit:<handler>:<method>:<kwargs>` | `404` | `405:<allow>`;  without methods
          `route:<pattern>` | `none`
  `G|path|env`                           `RadiDict.get(path, allow_partial=True)`
        → `hit:<pattern>:<param_keys>:<values>:<hook positions>` | `miss:<values>:<hook positions>:<partial>`
  `W|verb|path|env`                      request through `Ombott._handle` → as `R`
  `D|k|methods`                          `remove_method(methods)` on the route returned by op `k` → `ok`
  `N`                                    place holder (keeps op positions) → `skip`

`env` = `fid:text=val:n:sel;…` the real handler's answer for (filter, remaining text); `val` is
`s.<hex>` (a `str`) or `c.<hex>` (converted value, canonical text); `fid:text=~` = rejected.
A (filter, text) pair that is not listed is answered as rejected.
-/
namespace Drv.Router
open Py Drv Ombott.Router

def splitBar (s : String) : List String := s.splitOn "|"

def parseVal (s : String) : Option Val :=
  if s.startsWith "s." then some (.str (unhexStr (s.drop 2).toString))
  else if s.startsWith "c." then some (.conv (unhexStr (s.drop 2).toString))
  else none

def showVal : Val → String
  | .str s => "s." ++ hexStr s
  | .conv s => "c." ++ hexStr s

abbrev EnvTable := List ((Str × Str) × Option FilterRes)

def parseEnvEntry (e : String) : Option ((Str × Str) × Option FilterRes) :=
  match e.splitOn "=" with
  | [k, v] =>
    match k.splitOn ":" with
    | [f, t] =>
      let key := (unhexStr f, unhexStr t)
      if v == "~" then some (key, none) else
      match v.splitOn ":" with
      | [val, n, sel] => do
        let val ← parseVal val
        let n ← n.toNat?
        let sel ← if sel == "~" then some none else sel.toNat?.map some
        pure (key, some ⟨val, n, sel⟩)
      | _ => none
    | _ => none
  | _ => none

def parseEnv (s : String) : Option EnvTable :=
  if s == "~" then some [] else (s.splitOn ";").mapM parseEnvEntry

def envOf (t : EnvTable) : FilterEnv := fun f s =>
  match t.find? (fun e => e.1.1 == f && e.1.2 == s) with
  | some (_, r) => r
  | none => none

/-- `float(text)` outside the exactly modelled domain: the shipped answer of a `float` handler on
exactly that text -/
def fcOf (t : EnvTable) : Ombott.Builtins.FloatConv := fun m =>
  match t.find? (fun e => Ombott.Builtins.isFloatFid e.1.1 && e.1.2 == m) with
  | some (_, some r) => r.val
  | _ => .conv "float:unlisted".toList

/-- the environment of the `…b` lines: built-in handlers computed, the rest looked up -/
def envOfB (t : EnvTable) : FilterEnv := Ombott.Builtins.withBuiltin (fcOf t) (envOf t)

def parseCerr (s : String) : Option (List (Str × String)) :=
  if s == "~" then some [] else
  (s.splitOn ";").mapM fun e =>
    match e.splitOn "=" with
    | [k, v] => some (unhexStr k, v)
    | _ => none

def cenvOf (t : List (Str × String)) : CompileEnv := fun f => (t.find? (·.1 == f)).map (·.2)

def insertKw (x : Str × Val) : List (Str × Val) → List (Str × Val)
  | [] => [x]
  | y :: ys => if strLt y.1 x.1 then y :: insertKw x ys else x :: y :: ys

def showKwargs (kw : List (Str × Val)) : String :=
  if kw.isEmpty then "~" else
  ",".intercalate ((kw.foldr insertKw []).map fun (k, v) => hexStr k ++ "=" ++ showVal v)

def showVals (vs : List Val) : String :=
  if vs.isEmpty then "~" else ",".intercalate (vs.map showVal)

def showHookPos (hs : List (Nat × HookPair)) : String := showNatList (hs.map (·.1))

def showResolved : Resolved → String
  | .found h m kw _ => s!"hit:{h}:{hexStr m}:{showKwargs kw}"
  | .notFound .. => "404"
  | .notAllowed a => s!"405:{hexStr a}"
  | .fault => "fault"

structure St where
  R : Router := {}
  /-- op position ↦ route id returned by that `add` -/
  ret : List (Nat × Nat) := []

def patternOf (R : Router) (id : Nat) : String :=
  match R.obj? id with
  | some r => hexStr r.pattern
  | none => "?"

/-- one op; `none` = not understood / outside the model's domain -/
def stepOpWith (envOf : EnvTable → FilterEnv) (st : St) (idx : Nat) (op : String) : Option (St × String) :=
  match splitBar op with
  | ["A", rule, methods, name, ow, cerr] => do
    let cerr ← parseCerr cerr
    let rule := unhexStr rule
    let cenv := cenvOf cerr
    -- outside the domain where pattern string + filter list and `List Sym` coincide
    match parseRule cenv rule with
    | .ok p => if inDomain rule p then pure () else none
    | .error _ => pure ()
    let a : AddArgs := { rule := rule, methods := unhexStrList methods, handler := idx,
                         name := optStr name, overwrite := bool01 ow }
    let (R, out) := st.R.add asciiUpper cenv a
    match out with
    | .ok id => pure ({ R := R, ret := (idx, id) :: st.ret }, "ok:" ++ patternOf R id)
    | .error e => pure ({ st with R := R }, "err:" ++ e)
  | ["R", path, methods, env] => do
    let env ← parseEnv env
    let ms := unhexStrList methods
    if ms.isEmpty then
      pure (st, match st.R.resolveRoute (envOf env) (unhexStr path) with
        | some id => "route:" ++ patternOf st.R id
        | none => "none")
    else pure (st, showResolved (st.R.resolve (envOf env) (unhexStr path) ms))
  | ["G", path, env] => do
    let env ← parseEnv env
    pure (st, match treeGet (envOf env) st.R.tree (unhexStr path) with
      | .hit id keys vals hooks =>
        s!"hit:{patternOf st.R id}:{hexStrList keys}:{showVals vals}:{showHookPos hooks}"
      | .miss vals hooks p => s!"miss:{showVals vals}:{showHookPos hooks}:{hexStr p}")
  | ["W", verb, path, env] => do
    let env ← parseEnv env
    pure (st, showResolved (st.R.handle asciiUpper (envOf env) (unhexStr verb) (unhexStr path)))
  | ["D", k, methods] => do
    let k ← k.toNat?
    let (_, id) ← st.ret.find? (·.1 == k)
    let _ ← st.R.obj? id
    pure ({ st with R := st.R.removeMethod id (unhexStrList methods) }, "ok")
  | ["N"] => pure (st, "skip")
  | _ => none

/-- one op with the shipped filter answers taken as they are -/
def stepOp (st : St) (idx : Nat) (op : String) : Option (St × String) := stepOpWith envOf st idx op

def runOps (envOf : EnvTable → FilterEnv) : St → Nat → List String → Option (List String)
  | _, _, [] => some []
  | st, i, op :: ops => do
    let (st', out) ← stepOpWith envOf st i op
    let rest ← runOps envOf st' (i + 1) ops
    pure (out :: rest)

def handle : List String → Option String
  | "hist" :: ops => (runOps envOf {} 0 ops).map fun outs => " ".intercalate outs
  | "histb" :: ops => (runOps envOfB {} 0 ops).map fun outs => " ".intercalate outs
  | ["bfilter", f, text, fc] => do
    let fcv ← if fc == "~" then some (Val.conv "float:unlisted".toList) else parseVal fc
    pure (match Ombott.Builtins.builtinEnv (fun _ => fcv) (unhexStr f) (unhexStr text) with
      | none => "~"
      | some r => s!"{showVal r.val}:{r.n}")
  | ["bfmt", v] => do
    let v ← parseVal v
    pure (match Ombott.Builtins.floatFmt v with
      | some t => "ok." ++ hexStr t
      | none => "none")
  -- `router builtin <filter> <conf> <text>`: reference semantics of a built-in filter
  --   → `~` | `<value text>:<consumed>`
  | ["builtin", f, conf, text] =>
    some (match Ombott.Router.Builtin.builtin (unhexStr f) (unhexStr conf) (unhexStr text) with
      | none => "~"
      | some (v, n) => s!"{hexStr v}:{n}")
  | _ => none

end Drv.Router
