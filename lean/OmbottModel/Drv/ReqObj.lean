import OmbottModel.Drv.Common
import OmbottModel.Model.ReqObj
/-! Protocol lines of area `reqobj` (the request object protocol; extra correspondence stream of C09).  Text is hex of
UTF-8 (`-` = empty).  Every line is self-contained.

    reqobj run <ncells> <op>,<op>,…          answers joined by `;`, then `|` and the log of the recording listeners
      values V: s<hex> n b0 b1 i<int> r<request> d<hex tag> c<cell>; `~` = no value
      environ: `~` (None) | `@` ({}) | <hexkey>=V+<hexkey>=V…      config: `~` | `@` | <key>=<hex repr>+…
      callbacks: B | R<n> | O<hex event>.<n> | A<hex event>.<n>.<m>
      N/t/env/cfg  I/t/i/env  E/t/i/env  U/i/cfg  on/i/e/cb  off/i/e/cb  rm/n  em/t/i/e/V+V…|~
      g/t/i/k/V|~  k/t/i  it/t/i  l/t/i  gi/t/i/k  si/t/i/k/V  di/t/i/k  ga/t/i/name  sa/t/i/name/V  cp/t/i  pu/c/s  ce/c
    reqobj cerr <tpl> <map class> <err class> <except class|~> <eop>,…|~
      tpl = cls/code/line/body/hdrs/cookies; hdrs: <k>=s<hex> | <k>=l<hex>|<hex>… joined by `+` (`~` none);
      cookies: <name>=<coded>+… (`~` none)
      eops: ha/i/k/v hs/i/k/v ck/i/name/val st/i/code/line bo/i/body
      answer: <c<idx>|orig|e<Class>>;<view 0>;<view 1|~>
-/
namespace Drv.ReqObj
open Py Drv Ombott.ReqObj
open Ombott.EnvCache (Val)

def readV (s : String) : Option RVal :=
  match s.toList with
  | 's' :: r => some (.plain (.str (unhexStr (String.ofList r))))
  | ['n'] => some (.plain .none)
  | ['b', '0'] => some (.plain (.bool false))
  | ['b', '1'] => some (.plain (.bool true))
  | 'i' :: r => (String.ofList r).toInt?.map fun i => .plain (.int i)
  | 'r' :: r => (String.ofList r).toNat?.map .req
  | 'd' :: r => some (.desc (unhexStr (String.ofList r)))
  | 'c' :: r => (String.ofList r).toNat?.map .cell
  | _ => none

def showV : RVal → String
  | .plain (.str s) => "s" ++ hexStr s
  | .plain .none => "n"
  | .plain (.bool b) => if b then "b1" else "b0"
  | .plain (.int i) => "i" ++ toString i
  | .plain _ => "x"
  | .req i => "r" ++ toString i
  | .desc t => "d" ++ hexStr t
  | .cell c => "c" ++ toString c

def readOptV (s : String) : Option (Option RVal) := if s == "~" then some none else (readV s).map some

def readEnv (s : String) : Option (Option (List (Str × RVal))) :=
  if s == "~" then some none else if s == "@" then some (some []) else
  ((s.splitOn "+").mapM fun (p : String) =>
    match p.splitOn "=" with
    | [k, v] => (readV v).map fun x => (unhexStr k, x)
    | _ => none).map some

def showEnv (e : REnv) : String :=
  if e.isEmpty then "@" else "+".intercalate (e.map fun (k, v) => hexStr k ++ "=" ++ showV v)

def readCfg (s : String) : Option (Option (List (String × String))) :=
  if s == "~" then some none else if s == "@" then some (some []) else
  ((s.splitOn "+").mapM fun (p : String) =>
    match p.splitOn "=" with
    | [k, v] => some (k, String.ofList (unhexStr v))
    | _ => none).map some

def showCfg (c : Config) : String := "+".intercalate (c.map fun (k, v) => k ++ "=" ++ hexStr v.toList)

def readCb (s : String) : Option Cb :=
  match s.toList with
  | ['B'] => some .builtin
  | 'R' :: r => (String.ofList r).toNat?.map .recd
  | 'O' :: r =>
    match (String.ofList r).splitOn "." with
    | [e, n] => n.toNat?.map fun n => .once (unhexStr e) n
    | _ => none
  | 'A' :: r =>
    match (String.ofList r).splitOn "." with
    | [e, n, m] => match n.toNat?, m.toNat? with
      | some n, some m => some (.adder (unhexStr e) n m)
      | _, _ => none
    | _ => none
  | _ => none

def showCb : Cb → String
  | .builtin => "B"
  | .recd n => s!"R{n}"
  | .once e n => s!"O{hexStr e}.{n}"
  | .adder e n m => s!"A{hexStr e}.{n}.{m}"

def readArgs (s : String) : Option (List RVal) :=
  if s == "~" then some [] else (s.splitOn "+").mapM readV

def readOp (s : String) : Option Op :=
  match s.splitOn "/" with
  | ["N", t, env, cfg] => do pure (.new (← t.toNat?) (← readEnv env) (← readCfg cfg))
  | ["I", t, i, env] => do pure (.init (← t.toNat?) (← i.toNat?) (← readEnv env))
  | ["E", t, i, env] => do
    match ← readEnv env with
    | some e => pure (.setEnviron (← t.toNat?) (← i.toNat?) e)
    | none => none
  | ["U", i, cfg] => do pure (.setup (← i.toNat?) (← readCfg cfg))
  | ["on", i, e, cb] => do pure (.on (← i.toNat?) (unhexStr e) (← readCb cb))
  | ["off", i, e, cb] => do pure (.off (← i.toNat?) (unhexStr e) (← readCb cb))
  | ["rm", n] => do pure (.remover (← n.toNat?))
  | ["em", t, i, e, a] => do pure (.emit (← t.toNat?) (← i.toNat?) (unhexStr e) (← readArgs a))
  | ["g", t, i, k, d] => do pure (.get (← t.toNat?) (← i.toNat?) (unhexStr k) (← readOptV d))
  | ["k", t, i] => do pure (.keys (← t.toNat?) (← i.toNat?))
  | ["it", t, i] => do pure (.iter (← t.toNat?) (← i.toNat?))
  | ["l", t, i] => do pure (.len (← t.toNat?) (← i.toNat?))
  | ["gi", t, i, k] => do pure (.getItem (← t.toNat?) (← i.toNat?) (unhexStr k))
  | ["si", t, i, k, v] => do pure (.setItem (← t.toNat?) (← i.toNat?) (unhexStr k) (← readV v))
  | ["di", t, i, k] => do pure (.delItem (← t.toNat?) (← i.toNat?) (unhexStr k))
  | ["ga", t, i, n] => do pure (.getAttr (← t.toNat?) (← i.toNat?) (unhexStr n))
  | ["sa", t, i, n, v] => do pure (.setAttr (← t.toNat?) (← i.toNat?) (unhexStr n) (← readV v))
  | ["cp", t, i] => do pure (.copy (← t.toNat?) (← i.toNat?))
  | ["pu", c, s] => do pure (.push (← c.toNat?) (unhexStr s))
  | ["ce", c] => do pure (.cell (← c.toNat?))
  | _ => none

def showListeners (l : Listeners) : String :=
  "L" ++ "+".intercalate (l.map fun (e, cbs) => hexStr e ++ ":" ++ "|".intercalate (cbs.map showCb))

def showAttr : Attr → String
  | .val v => showV v
  | .got tag i => s!"G{hexStr tag}.{i}"
  | .environ none => "n"
  | .environ (some e) => "E" ++ showEnv e
  | .envGet b => if b then "M1" else "n"
  | .listeners l => showListeners l
  | .config c => "C" ++ showCfg c
  | .store => "T"

def showAns : Ans → String
  | .unit => "ok"
  | .created i => s!"#{i}"
  | .val none => "n"
  | .val (some v) => showV v
  | .keys l => hexStrList l
  | .len n => toString n
  | .attr a => showAttr a
  | .strs l => hexStrList l
  | .err e => "e" ++ e.name
  | .unmodelled => "unmodelled"

def showLog (l : List Ev) : String :=
  if l.isEmpty then "~" else
  "+".intercalate (l.map fun ev => s!"{ev.n}.{ev.req}." ++ "&".intercalate (ev.args.map showV))

/-! ### `_raise` / `_copy_error` -/

def readHdrs (s : String) : Option (List (Str × (Str ⊕ List Str))) :=
  if s == "~" then some [] else
  (s.splitOn "+").mapM fun p =>
    match p.splitOn "=" with
    | [k, v] =>
      match v.toList with
      | 's' :: r => some (unhexStr k, .inl (unhexStr (String.ofList r)))
      | 'l' :: r => some (unhexStr k, .inr (if r.isEmpty then [] else ((String.ofList r).splitOn "|").map unhexStr))
      | _ => none
    | _ => none

def readJar (s : String) : Option (List (Str × Str)) :=
  if s == "~" then some [] else
  (s.splitOn "+").mapM fun p =>
    match p.splitOn "=" with
    | [k, v] => some (unhexStr k, unhexStr v)
    | _ => none

/-- the world holding just the template -/
def mkTpl (s : String) : Option EWorld :=
  match s.splitOn "/" with
  | [cls, code, line, body, hdrs, cookies] => do
    let code ← code.toNat?
    let hs ← readHdrs hdrs
    let jar ← readJar cookies
    let (hdrs', lists) := hs.foldl (fun (acc : List (Str × HRef) × List (List Str)) p =>
      match p.2 with
      | .inl v => (acc.1 ++ [(p.1, HRef.one v)], acc.2)
      | .inr l => (acc.1 ++ [(p.1, HRef.ref acc.2.length)], acc.2 ++ [l])) ([], [])
    pure { objs := [{ cls := cls, code := code, line := unhexStr line, body := unhexStr body, headers := hdrs',
                      cookies := if jar.isEmpty then none else some 0 }],
           lists := lists, jars := if jar.isEmpty then [] else [jar] }
  | _ => none

def readEOp (s : String) : Option EOp :=
  match s.splitOn "/" with
  | ["ha", i, k, v] => do pure (.hdrAppend (← i.toNat?) (unhexStr k) (unhexStr v))
  | ["hs", i, k, v] => do pure (.hdrSet (← i.toNat?) (unhexStr k) (unhexStr v))
  | ["ck", i, n, v] => do pure (.cookieSet (← i.toNat?) (unhexStr n) (unhexStr v))
  | ["st", i, c, l] => do pure (.setStatus (← i.toNat?) (← c.toNat?) (unhexStr l))
  | ["bo", i, b] => do pure (.setBody (← i.toNat?) (unhexStr b))
  | _ => none

def showView : Option EView → String
  | none => "~"
  | some v =>
    let hd := if v.headers.isEmpty then "~" else "+".intercalate (v.headers.map fun (k, vals, isList) =>
      hexStr k ++ "=" ++ (if isList then "l" ++ "|".intercalate (vals.map hexStr) else "s" ++ hexStr (vals.headD [])))
    let ck := if v.cookies.isEmpty then "~" else "+".intercalate (v.cookies.map fun (k, c) => hexStr k ++ "=" ++ hexStr c)
    s!"{v.cls}/{v.code}/{hexStr v.line}/{hexStr v.body}/{hd}/{ck}"

def handle : List String → Option String
  | ["run", ncells, ops] => do
    let n ← ncells.toNat?
    let ops ← (ops.splitOn ",").mapM readOp
    let (w, ans) := run (World.init (List.replicate n [])) ops
    pure (";".intercalate (ans.map showAns) ++ "|" ++ showLog w.log)
  | ["cerr", tpl, mapCls, errCls, exceptCls, eops] => do
    let w ← mkTpl tpl
    let eops ← if eops == "~" then some [] else (eops.splitOn ",").mapM readEOp
    match raiseR w [(mapCls, 0)] errCls (if exceptCls == "~" then none else some exceptCls) with
    | .error x => pure ("e" ++ x.name)
    | .ok (w1, raised) =>
      let w2 := erun w1 eops
      pure ((match raised with | some c => s!"c{c}" | none => "orig") ++ ";" ++ showView (eview w2 0) ++ ";" ++
            showView (eview w2 1))
  | _ => none

end Drv.ReqObj
