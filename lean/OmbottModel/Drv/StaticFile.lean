import OmbottModel.Drv.Common
import OmbottModel.Model.StaticFile
/-! Protocol lines of area `static` (C16).  Text is hex of UTF-8.  `serve` takes the answers the
real file system gave for the probed path as three 0/1 flags (exists, isfile, access): the
file-system predicates are parameters of the model. -/
namespace Drv.StaticFile
open Py Drv Ombott.StaticFile

def constFs (e f a : Bool) : Fs := ⟨fun _ => e, fun _ => f, fun _ => a⟩

def handle : List String → Option String
  | ["normpath", p] => some (hexStr (normpath (unhexStr p)))
  | ["join", a, b] => some (hexStr (join (unhexStr a) (unhexStr b)))
  | ["abspath", cwd, p] => some (hexStr (abspath (unhexStr cwd) (unhexStr p)))
  | ["strip", p] => some (hexStr (stripSeps (unhexStr p)))
  | ["serve", cwd, root, fn, e, f, a, head, notmod] =>
    let cwd := unhexStr cwd; let root := unhexStr root; let fn := unhexStr fn
    let o := serve (constFs (bool01 e) (bool01 f) (bool01 a)) cwd root fn (bool01 head) (bool01 notmod)
    let p := target cwd root fn
    let probe := if (rootDir cwd root).isPrefixOf p then hexStr p else "~"
    some s!"{o.status} open={hexStrList o.opened} probe={probe}"
  | _ => none

end Drv.StaticFile
