import OmbottModel.Drv.RouterEdit
import OmbottModel.Model.RegApi
/-!
Protocol lines of the registration surface (`Model/RegApi.lean`).  One line = one history on a process
with its applications (number 0 = `Globals.app`):

  `regapi hist <hooks> <aborts> <op> <op> …`      answer: one token per op, blank separated
  `regapi run <app> <callable> <server> <quiet> <serverQuiet>`   the decision logic of `run()`
  `regapi int <hex>`                               `int(str)` → `<n>` | `err:ValueError`
  `regapi upper <hexlist>`                         `[m.upper() …]` twice is once → `<hexlist>`

`<hooks>`  = `~` | `id:raises:act+act…,…`  with act = `a.<name>.<func>` (add_hook) | `r.<name>.<func>` (remove_hook)
`<aborts>` = `~` | `id=status,…`            callbacks that `abort(status)` instead of returning
ops: `<target>|<kind>|…`; target = application number, or `g:<holder>:<name>` for `Globals.<name>` / `ombott.<name>`
  `NEW`                                          `Ombott()` → `app:<n>`
  `T|RT|rule|method|cb|name|ow`                  `route(rule, method, cb, name=, overwrite=)`
  `T|RD|rule|method|name|ow|cb`                  `@route(rule, method, name=, overwrite=)`
  `T|SC|attr|rule|second|cb|method|name|ow`      `app.<attr>(rule, [second], callback=cb, method=…)`
  `T|SD|attr|rule|method|name|ow|cb`             `@app.<attr>(rule, …)`
  `T|AR|rule|method|handler|name|ow`             `add_route` → `ok:<pattern>` | `err:<E>`
  `T|XR|rule|name|pattern`                       `remove_route`
  `T|AH|name|func`  `T|ON|name|cb`  `T|OD|name|cb`  `T|XH|name|func`  `T|EM|name`
  `T|OR|rule|cb`  `T|ORD|rule|cb`  `T|XRH|rule`
  `T|ER|code|rule|handler`                       `error(code, rule)(handler)`; code = `i:<int>` | `s:<hex>`
  `T|RQ|verb|path`                               a request through `Ombott.__call__`
  `T|SU`                                         `setup()`
  observations: `T|HL` hook lists, `T|EH` error handlers, `T|RL` routes / names / route hooks
method = `~` (default) | `s:<hex>` | `l:<hexlist>`;  cb = `~` | `<id>` | `<id>f` (falsy callable)
answers: `none` | `cb:<id>` | `deco` | `true` | `err:<E>`; `em:<called>:<err>`;
  `rq:b=<called>;<routed>;a=<called>;s=<status>;h=<handler>;c=<0|1>`
-/
namespace Drv.RegApi
open Py Drv Ombott.Router Ombott.RegApi Drv.Router

def parseCb (s : String) : Option (Option Callback) :=
  if s == "~" then some none
  else if s.endsWith "f" then (s.dropEnd 1).toString.toNat?.map fun n => some ⟨n, false⟩
  else s.toNat?.map fun n => some ⟨n, true⟩

def parseCb1 (s : String) : Option Callback := (parseCb s).bind id

def parseMethods (s : String) : Option (Option Methods) :=
  if s == "~" then some none
  else if s.startsWith "s:" then some (some (.one (unhexStr (s.drop 2).toString)))
  else if s.startsWith "l:" then some (some (.many (unhexStrList (s.drop 2).toString)))
  else none

def parseMethods1 (s : String) : Option Methods := (parseMethods s).bind id

def parseCode (s : String) : Option CodeArg :=
  if s.startsWith "i:" then (s.drop 2).toString.toInt?.map .int
  else if s.startsWith "s:" then some (.str (unhexStr (s.drop 2).toString))
  else none

def parseTarget (s : String) : Option Target :=
  match s.splitOn ":" with
  | ["g", h, n] => some (.alias h n)
  | [i] => i.toNat?.map .app
  | _ => none

def parseAct (s : String) : Option HookAct :=
  match s.splitOn "." with
  | ["a", n, f] => f.toNat?.map fun f => .addHook (unhexStr n) f
  | ["r", n, f] => f.toNat?.map fun f => .removeHook (unhexStr n) f
  | _ => none

def parseHooks (s : String) : Option (List (Nat × HookProg)) :=
  if s == "~" then some [] else
  (s.splitOn ",").mapM fun e =>
    match e.splitOn ":" with
    | [id, r, acts] => do
      let id ← id.toNat?
      let acts ← if acts == "-" then some [] else (acts.splitOn "+").mapM parseAct
      pure (id, { acts := acts, raises := bool01 r })
    | _ => none

def parseAborts (s : String) : Option (List (Nat × Nat)) :=
  if s == "~" then some [] else
  (s.splitOn ",").mapM fun e =>
    match e.splitOn "=" with
    | [a, b] => do pure (← a.toNat?, ← b.toNat?)
    | _ => none

/-- the correspondence runs on rules without filters: filter compilation and handlers are not consulted -/
def noCenv : CompileEnv := fun _ => none
def noEnv : FilterEnv := fun _ _ => none

def ruleOK (rule : Str) : Bool :=
  Drv.RouterEdit.inDom noCenv rule && Drv.RouterEdit.noMarker noCenv rule &&
    match parseRule noCenv rule with
    | .ok p => p.syms.all fun | .tok (some _) => false | _ => true
    | .error _ => true

def mkCtx (hooks : List (Nat × HookProg)) (aborts : List (Nat × Nat)) : Ctx :=
  { upper := asciiUpper, cenv := noCenv, env := noEnv,
    hook := fun h => ((hooks.find? (·.1 == h)).map (·.2)).getD {},
    aborts := fun h => (aborts.find? (·.1 == h)).map (·.2) }

def showRet : Outcome → String
  | .ok .none => "none"
  | .ok (.callback i) => s!"cb:{i}"
  | .ok .decorator => "deco"
  | .ok .true_ => "true"
  | .error e => "err:" ++ e

def showRouted : Routed → String
  | .skipped => "skip"
  | .served (.ran h m kw fired) => s!"ran:{h}:{hexStr m}:{showKwargs kw}:{Drv.RouterEdit.showFired fired}"
  | .served (.notFoundHook h a vals) => s!"404h:{h}:{hexStr a}:{showVals vals}"
  | .served .notFound => "404"
  | .served (.notAllowed a) => s!"405:{hexStr a}"
  | .served .fault => "fault"

def showOut (app : App) : Out → String
  | .ret o => showRet o
  | .route (.ok id) => "ok:" ++ patternOf app.router id
  | .route (.error e) => "err:" ++ e
  | .emitted e => s!"em:{showNatList e.called}:{e.error.getD "~"}"
  | .req r =>
    -- a 404 / 405 in flight that an after hook's exception replaced leaves no trace in the response
    let lost := r.afterRaised && (match r.routed with | .served .notFound | .served (.notAllowed _) => true | _ => false)
    s!"rq:b={showNatList r.before};{if lost then "lost" else showRouted r.routed};a={showNatList r.after};s={r.status};h={Drv.RouterEdit.showOptNat r.handler};c={show01 r.critical}"

def insertIntKey (x : Int × Nat) : List (Int × Nat) → List (Int × Nat)
  | [] => [x]
  | y :: ys => if y.1 < x.1 then y :: insertIntKey x ys else x :: y :: ys

def showErrorHandlers (app : App) : String :=
  let eh := app.errorHandlers.foldr insertIntKey []
  let a := if eh.isEmpty then "~" else ",".intercalate (eh.map fun (c, h) => s!"{c}={h}")
  let ks := sortStrs (app.hooks404.map (·.1))
  let b := if ks.isEmpty then "~" else ",".intercalate (ks.map fun k =>
    hexStr k ++ "=" ++ Drv.RouterEdit.showOptNat (dictGet app.hooks404 k))
  s!"eh:{a};{b}"

def showHookLists (app : App) : String :=
  match app.hooks with
  | none => "hl:lazy"
  | some d => "hl:" ++ ";".intercalate (d.map fun (n, l) => s!"{hexStr n}={showNatList l}")

def showRoutes (app : App) : String :=
  let R := app.router
  let routes := sortStrs (R.routes.map (·.1))
  let txt := routes.map fun p =>
    match dictGet R.routes p with
    | some id => Drv.RouterEdit.showRoute R id
    | none => "?"
  let hooks := sortStrs (R.hookIdx.map (·.1))
  let htxt := hooks.map fun p =>
    match dictGet R.hookIdx p with
    | some hp => s!"{hexStr p}={Drv.RouterEdit.showOptNat hp.simple}.{Drv.RouterEdit.showOptNat hp.partialHook}"
    | none => "?"
  let named := sortStrs (R.named.map (·.1))
  let ntxt := named.map fun n =>
    match dictGet R.named n with
    | some id => hexStr n ++ "=" ++ patternOf R id
    | none => "?"
  let j := fun (l : List String) => if l.isEmpty then "~" else ",".intercalate l
  s!"rl:{j txt};{j ntxt};{j htxt}"

def parseOp (fields : List String) : Option Ombott.RegApi.Op :=
  match fields with
  | ["RT", rule, m, cb, name, ow] => do
    let rule := unhexStr rule
    if !ruleOK rule then none
    pure (.route rule (← parseMethods m) (← parseCb cb) (optStr name) (bool01 ow))
  | ["RD", rule, m, name, ow, cb] => do
    let rule := unhexStr rule
    if !ruleOK rule then none
    pure (.routeDeco rule (← parseMethods m) (optStr name) (bool01 ow) (← parseCb1 cb))
  | ["SC", attr, rule, second, cb, m, name, ow] => do
    let rule := unhexStr rule
    if !ruleOK rule then none
    pure (.shortcut attr rule (← parseCb second) (← parseCb cb) (← parseMethods m) (optStr name) (bool01 ow))
  | ["SD", attr, rule, m, name, ow, cb] => do
    let rule := unhexStr rule
    if !ruleOK rule then none
    pure (.shortcutDeco attr rule (← parseMethods m) (optStr name) (bool01 ow) (← parseCb1 cb))
  | ["AR", rule, m, h, name, ow] => do
    let rule := unhexStr rule
    if !ruleOK rule then none
    pure (.addRoute rule (← parseMethods1 m) (← h.toNat?) (optStr name) (bool01 ow))
  | ["XR", rule, name, pat] => do
    let rule := optStr rule
    if !(rule.map ruleOK).getD true then none
    pure (.removeRoute rule (optStr name) (optStr pat))
  | ["AH", n, f] => do pure (.addHook (unhexStr n) (← f.toNat?))
  | ["ON", n, cb] => do pure (.on (unhexStr n) (← parseCb cb))
  | ["OD", n, cb] => do pure (.onDeco (unhexStr n) (← parseCb1 cb))
  | ["XH", n, f] => do pure (.removeHook (unhexStr n) (← f.toNat?))
  | ["EM", n] => pure (.emit (unhexStr n))
  | ["OR", rule, cb] => do
    let rule := unhexStr rule
    if !ruleOK rule then none
    pure (.onRoute rule (← parseCb cb))
  | ["ORD", rule, cb] => do
    let rule := unhexStr rule
    if !ruleOK rule then none
    pure (.onRouteDeco rule (← parseCb1 cb))
  | ["XRH", rule] => do
    let rule := unhexStr rule
    if !ruleOK rule then none
    pure (.removeRouteHook rule)
  | ["ER", code, rule, h] => do
    let rule := optStr rule
    if !(rule.map ruleOK).getD true then none
    pure (.error (← parseCode code) rule (← h.toNat?))
  | ["RQ", verb, path] => pure (.request (unhexStr verb) (unhexStr path))
  | ["SU"] => pure .setup
  | _ => none

def stepTok (ctx : Ctx) (w : World) (tok : String) : Option (World × String) :=
  if tok == "NEW" then
    let w' := w.newApp
    some (w', s!"app:{w'.apps.length - 1}")
  else
  match splitBar tok with
  | t :: fields => do
    let t ← parseTarget t
    match fields with
    | ["HL"] => do
      let app ← w.apps[← t.index]?
      pure (w, showHookLists app)
    | ["EH"] => do
      let app ← w.apps[← t.index]?
      pure (w, showErrorHandlers app)
    | ["RL"] => do
      let app ← w.apps[← t.index]?
      pure (w, showRoutes app)
    | _ => do
      let op ← parseOp fields
      let (w', out) ← w.step ctx t op
      let app ← w'.apps[← t.index]?
      pure (w', showOut app out)
  | [] => none

def runToks (ctx : Ctx) : World → List String → Option (List String)
  | _, [] => some []
  | w, t :: ts => do
    let (w', out) ← stepTok ctx w t
    let rest ← runToks ctx w' ts
    pure (out :: rest)

def handle : List String → Option String
  | "hist" :: hooks :: aborts :: ops => do
    let ctx := mkCtx (← parseHooks hooks) (← parseAborts aborts)
    let outs ← runToks ctx {} ops
    pure (" ".intercalate outs)
  | ["run", app, callable, server, quiet, sq] => do
    let app ← if app == "~" then some none else app.toNat?.map some
    let server ← match server.splitOn ":" with
      | ["n", s] => some (ServerArg.name (String.ofList (unhexStr s)))
      | ["f", i] => i.toNat?.map .factory
      | _ => none
    pure (match runPlan { app := app, appCallable := bool01 callable, server := server, quiet := bool01 quiet,
                          serverQuiet := bool01 sq } with
      | .ok p => s!"plan:{if p.isDefaultApp then "default" else toString p.app}:{p.server}:{show01 p.quiet}:{show01 p.banner}"
      | .error e => "err:" ++ e)
  | ["int", s] =>
    some (match (CodeArg.str (unhexStr s)).toInt with
      | .ok n => toString n
      | .error e => "err:" ++ e)
  | ["upper", l] =>
    let ms := unhexStrList l
    some (hexStrList (ms.map asciiUpper) ++ ":" ++ hexStrList ((ms.map asciiUpper).map asciiUpper))
  | _ => none

end Drv.RegApi
