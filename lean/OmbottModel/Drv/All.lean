import OmbottModel.Drv.Range
import OmbottModel.Drv.Wsgi
/-! Dispatch of a protocol line to the area handlers.  `State` holds the few models that are
driven as state machines across lines (router, multipart feed, header store). -/
namespace Drv

structure State where
  dummy : Unit := ()

def State.init : State := {}

def step (st : State) (line : String) : State × String :=
  let toks := (line.trimAscii.toString.splitOn " ").filter (· ≠ "")
  match toks with
  | [] => (st, "")
  | area :: rest =>
    if area.startsWith "#" then (st, line.trimAscii.toString) else
    let pure? (r : Option String) : State × String := (st, r.getD "bad-op")
    match area with
    | "range" => pure? (Range.handle rest)
    | "wsgi" => pure? (Wsgi.handle rest)
    | _ => (st, "bad-op")

end Drv
