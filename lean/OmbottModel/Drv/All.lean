import OmbottModel.Drv.Range
import OmbottModel.Drv.Qs
import OmbottModel.Drv.StaticFile
import OmbottModel.Drv.Headers
import OmbottModel.Drv.Cookies
import OmbottModel.Drv.ErrorPage
import OmbottModel.Drv.Router
import OmbottModel.Drv.RouteUrl
import OmbottModel.Drv.Multipart
import OmbottModel.Drv.Body
import OmbottModel.Drv.Wsgi
import OmbottModel.Drv.Forms
import OmbottModel.Drv.RouterEdit
import OmbottModel.Drv.TsProps
import OmbottModel.Drv.EnvCache
import OmbottModel.Drv.Helpers
import OmbottModel.Drv.RouterListing
import OmbottModel.Drv.App
import OmbottModel.Drv.RespHelp
import OmbottModel.Drv.Upload
import OmbottModel.Drv.Config
import OmbottModel.Drv.ReqObj
import OmbottModel.Drv.RegApi
/-! Dispatch of a protocol line to the area handlers.  `State` holds the few models that are
driven as state machines across lines (router, multipart feed, header store). -/
namespace Drv

structure State where
  dummy : Unit := ()

def State.init : State := {}

def step (st : State) (line : String) : State × String :=
  let toks := (line.trimAscii.toString.splitOn " ").filter (· ≠ "")
  match toks with
  | [] => (st, "")
  | area :: rest =>
    if area.startsWith "#" then (st, line.trimAscii.toString) else
    let pure? (r : Option String) : State × String := (st, r.getD "bad-op")
    match area with
    | "range" => pure? (Range.handle rest)
    | "qs" => pure? (Qs.handle rest)
    | "static" => pure? (StaticFile.handle rest)
    | "hdr" => pure? (Headers.handle rest)
    | "cookie" => pure? (Cookies.handle rest)
    | "errorpage" => pure? (ErrorPage.handle rest)
    | "router" => pure? (Router.handle rest)
    | "routeurl" => pure? (RouteUrl.handle rest)
    | "mp" => pure? (Multipart.handle rest)
    | "body" => pure? (Body.handle rest)
    | "wsgi" => pure? (Wsgi.handle rest)
    | "forms" => pure? (Forms.handle rest)
    | "redit" => pure? (RouterEdit.handle rest)
    | "tsprops" => pure? (TsProps.handle rest)
    | "envcache" => pure? (EnvCache.handle rest)
    | "helpers" => pure? (Helpers.handle rest)
    | "rlist" => pure? (RouterListing.handle rest)
    | "app" => pure? (App.handle rest)
    | "resphelp" => pure? (RespHelp.handle rest)
    | "upload" => pure? (Upload.handle rest)
    | "config" => pure? (Config.handle rest)
    | "reqobj" => pure? (ReqObj.handle rest)
    | "regapi" => pure? (RegApi.handle rest)
    | _ => (st, "bad-op")

end Drv
