import OmbottModel.Drv.RouterEdit
import OmbottModel.Model.RouterListing
/-!
Protocol lines of the listing / key-form model (`Model/RouterListing.lean`, C11).  Same line
format as `redit hist`: one line = one edit history with its probes,

  `rlist hist <op> <op> …`          answer: one token per op, blank separated

ops: every op of `Drv/RouterEdit.lean` (and through it of `Drv/Router.lean`) and
  `LI|startswith|yh`       `list(radidict._routes_iter(startswith=…, yield_hooks=yh))`; `startswith` is
                           a pattern string (CR = wildcard marker)
        → entries `;`-joined (`~` = nothing): `<pattern>/<filters>/<param names>/<data>/<hooks>` read off
          every yielded node path: pattern = keys of `path[1:]`, filters = `FILTER` of its wildcard nodes
          (`~` = plain), data = `route:<pattern>:<methods>` | `~`, hooks = `<simple>.<partial>` | `~`
  `LR`                     `list(app.routes)`, `list(router.named_routes)` in dict order
        → `routes=<patterns>;named=<names>`
  `LS`                     per enumerated route `repr(route)`, then per method `repr(m)`, `str(m)`,
                           `m.handler_fullname` (handler `k` prints as `h<k>`, full name `m.h<k>`) → hex text
  `LK|<keyform>|cerr`      `router[key]` → `route:<pattern>:<methods>` | `none` | `err:<ErrName>`
        keyform: `n.<hex>` a name; `s:<atom>,…` a set; `d:<atom>=<atom>,…` a dict;
                 `k:<atom>:<atom>` `RouteKey(rule, pattern=…)`; `o` any other object
        atom: `S<hex>` a str, `N` None, `I0` / `I1` an int (false / true)
  `LE|rule|cerr`           text of the `RadiDictKeyError` registering `rule` meets (filter clash) → hex | `none`
  `LC|rule|methods|cerr`   text of the `RouteMethodError` of `_raise_if_registered(methods, handler)` on
                           `router[{rule}]`; the candidate handler is the op's position → hex | `none` | `noroute`
  `LP|pattern|names`       `radidict._render_route(pattern, names)` → hex
  `LU|rule|cerr`           `RadiDict.params_unpack(Route(rule).params_signature())`
        → `<keys>/<filters>/<exclusions>` | `err:<ErrName>`
  `WX|rule|name|pattern|cerr`   `app.remove_route(rule, route_pattern=pattern, name=name)` (`~` = not given)
        → `ok` | `err:<ErrName>`
-/
namespace Drv.RouterListing
open Py Drv Ombott.Router Drv.Router Drv.RouterEdit

def showFid : Option Fid → String
  | some f => hexStr f
  | none => "~"

def showFids (l : List (Option Fid)) : String :=
  if l.isEmpty then "-" else ",".intercalate (l.map showFid)

def showPair : Option HookPair → String
  | some hp => s!"{showOptNat hp.simple}.{showOptNat hp.partialHook}"
  | none => "~"

def showListed (R : Router) (l : Listed) : String :=
  let d := match l.data with
    | some id => showRoute R id
    | none => "~"
  s!"{hexStr (patStr l.pat)}/{showFids (symFilters l.pat)}/{hexStrList l.keys}/{d}/{showPair l.hooks}"

def showListing (R : Router) (ps : List (List PathEl)) : String :=
  if ps.isEmpty then "~" else ";".intercalate (ps.map fun p => showListed R (listedOf p))

def handlerText : HandlerText :=
  { str := fun k => 'h' :: natStr k, fullname := fun k => "m.h".toList ++ natStr k }

def parseAtom (s : String) : Option KAtom :=
  if s == "N" then some .none
  else if s == "I0" then some (.int false)
  else if s == "I1" then some (.int true)
  else if s.startsWith "S" then some (.str (unhexStr (s.drop 1).toString))
  else none

def parseAtoms (s : String) : Option (List KAtom) :=
  if s.isEmpty then some [] else (s.splitOn ",").mapM parseAtom

def parseItems (s : String) : Option (List (KAtom × KAtom)) :=
  if s.isEmpty then some [] else
  (s.splitOn ",").mapM fun kv =>
    match kv.splitOn "=" with
    | [k, v] => do pure ((← parseAtom k), (← parseAtom v))
    | _ => none

/-- the key of an `LK` op: a `Key`, or the two arguments of a `RouteKey(…)` call -/
def parseKey (s : String) : Option (Key ⊕ (KAtom × KAtom)) :=
  if s == "o" then some (.inl .other)
  else if s.startsWith "n." then some (.inl (.name (unhexStr (s.drop 2).toString)))
  else if s.startsWith "s:" then (parseAtoms (s.drop 2).toString).map fun es => .inl (.set es)
  else if s.startsWith "d:" then (parseItems (s.drop 2).toString).map fun it => .inl (.dict it)
  else if s.startsWith "k:" then
    match (s.drop 2).toString.splitOn ":" with
    | [a, b] => do pure (.inr ((← parseAtom a), (← parseAtom b)))
    | _ => none
  else none

def showLookup (R : Router) : Except ErrName (Option Nat) → String
  | .ok (some id) => showRoute R id
  | .ok none => "none"
  | .error e => "err:" ++ e

def optHex (s : String) : Option Str := if s == "~" then none else some (unhexStr s)

def stepOp (st : St) (idx : Nat) (op : String) : Option (St × String) :=
  match splitBar op with
  | ["LI", sw, yh] =>
    pure (st, showListing st.R (routesIter st.R.tree (symsOfStr (unhexStr sw)) (bool01 yh)))
  | ["LR"] =>
    pure (st, s!"routes={hexStrList st.R.appRoutes};named={hexStrList (st.R.named.map (·.1))}")
  | ["LS"] => pure (st, hexStr (st.R.listingText Ombott.ErrorPage.isPrintable handlerText))
  | ["LK", key, cerr] => do
    let cenv := cenvOf (← parseCerr cerr)
    let k ← parseKey key
    pure (st, showLookup st.R (match k with
      | .inl key => st.R.getItem cenv key
      | .inr (a, b) => st.R.getByRouteKey cenv a b))
  | ["LE", rule, cerr] => do
    let cenv := cenvOf (← parseCerr cerr)
    let rule := unhexStr rule
    if !inDom cenv rule then none
    pure (st, match parseRule cenv rule with
      | .error e => "err:" ++ e
      | .ok p =>
        match filterClashMsg st.R.tree p.syms p.params with
        | some m => hexStr m
        | none => "none")
  | ["LC", rule, methods, cerr] => do
    let cenv := cenvOf (← parseCerr cerr)
    pure (st, match st.R.byRule cenv (unhexStr rule) with
      | .ok (some id) =>
        match st.R.obj? id with
        | some r =>
          match r.clashMsg Ombott.ErrorPage.isPrintable handlerText (unhexStrList methods) idx with
          | some m => hexStr m
          | none => "none"
        | none => "fault"
      | _ => "noroute")
  | ["LP", pat, names] => pure (st, hexStr (renderRoute (unhexStr pat) (unhexStrList names)))
  | ["LU", rule, cerr] => do
    let cenv := cenvOf (← parseCerr cerr)
    pure (st, match parseRule cenv (unhexStr rule) with
      | .error e => "err:" ++ e
      | .ok p =>
        let (ex, fs, ks) := paramsUnpack (some (paramsSignature p.params p.filters))
        s!"{hexStrList ks}/{showFids fs}/{if ex.isEmpty then "-" else ",".intercalate (ex.map show01)}")
  | ["WX", rule, name, pat, cerr] => do
    let cenv := cenvOf (← parseCerr cerr)
    let rule := optHex rule
    match rule with
    | some r => if !noMarker cenv r then none
    | none => pure ()
    let (R, out) := st.R.appRemoveRoute cenv rule (optHex name) (optHex pat)
    pure ({ st with R := R }, showOutcome out)
  | _ => Drv.RouterEdit.stepOp st idx op

def runOps : St → Nat → List String → Option (List String)
  | _, _, [] => some []
  | st, i, op :: ops => do
    let (st', out) ← stepOp st i op
    let rest ← runOps st' (i + 1) ops
    pure (out :: rest)

def handle : List String → Option String
  | "hist" :: ops => (runOps {} 0 ops).map fun outs => " ".intercalate outs
  | _ => none

end Drv.RouterListing
