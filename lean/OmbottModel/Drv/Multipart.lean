import OmbottModel.Drv.Common
import OmbottModel.Model.Multipart
import OmbottModel.Model.MultipartSpec
/-!
Protocol lines of the multipart area (all self-contained):

* `mp parse <boundary> <chunks> end|each` — a fresh `MultipartMarkup(boundary)` fed with the chunks;
  answer `m=<markups> e=<error class> s=<stopped>` at the end; with `each` preceded by
  `steps=<n markups>:<error>:<stopped>,…` after every chunk.
* `mp cuts <boundary> <body> <cutsets>` — the body cut at each set of positions
  (`;`-separated sets of `.`-separated positions, `-` = no cut); one answer per set joined by
  `|`, `=` when it equals the previous one.
* `mp ref <boundary> <body>` — the byte-at-a-time reference machine of `MultipartSpec`:
  same answer format, or `undefined`.
* `mp refchk <boundary> <body> <m=…> <e=…> <s=…>` — `ok` when the reference machine is undefined on the
  body or gives exactly this result.
* `mp enc <boundary> <parts> <epilogue>` — the body encoder of the spec (parts:
  `;`-separated `line.line.…:data`), answers the body and `wf=0|1`.
-/
namespace Drv.Multipart
open Py Drv Ombott.Multipart

def showMarkup (m : Markup) : String :=
  let n := match m.name with | .data => "d" | .headers => "h"
  s!"({n}:{m.start}:{m.stop})"

def showMarkups (l : List Markup) : String :=
  if l.isEmpty then "-" else String.join (l.map showMarkup)

def showErr : Option Err → String
  | none => "-"
  | some e => e.name

def showObs (o : Obs) : String := s!"m={showMarkups o.markups} e={showErr o.error} s={show01 o.stopped}"

def posList (s : String) : List Nat :=
  if s == "-" then [] else (s.splitOn ".").filterMap (·.toNat?)

def compress : Option String → List String → List String
  | _, [] => []
  | prev, x :: xs => (if prev == some x then "=" else x) :: compress (some x) xs

def unhexParts (s : String) : List (List Bytes × Bytes) :=
  if s == "~" then [] else
  (s.splitOn ";").map fun p =>
    match p.splitOn ":" with
    | [ls, d] => ((if ls == "~" then [] else (ls.splitOn ".").map unhexBytes), unhexBytes d)
    | _ => ([], [])

def handle : List String → Option String
  | ["parse", b, chunks, mode] =>
    match St.init (unhexBytes b) with
    | .error e => some s!"init-error {e.name}"
    | .ok s0 =>
      let cs := unhexBytesList chunks
      if mode == "end" then some (showObs (feed s0 cs).obs)
      else if mode == "each" then
        let (sN, steps) := cs.foldl (fun (acc : St × List String) c =>
          let s' := parse acc.1 c
          (s', acc.2 ++ [s!"{s'.markups.length}:{showErr s'.error}:{show01 s'.markuper.stopped}"])) (s0, [])
        some s!"steps={",".intercalate steps} {showObs sN.obs}"
      else none
  | ["cuts", b, body, sets] =>
    match St.init (unhexBytes b) with
    | .error e => some s!"init-error {e.name}"
    | .ok s0 =>
      let bd := unhexBytes body
      let res := (sets.splitOn ";").map fun cs => showObs (feed s0 (Spec.cutAt bd 0 (posList cs))).obs
      some ("|".intercalate (compress none res))
  | ["ref", b, body] =>
    match Spec.run (unhexBytes b) (unhexBytes body) with
    | none => some "undefined"
    | some o => some (showObs o)
  | ["refchk", b, body, m, e, s] =>
    match Spec.run (unhexBytes b) (unhexBytes body) with
    | none => some "ok"
    | some o => if showObs o == s!"{m} {e} {s}" then some "ok" else some s!"mismatch {showObs o}"
  | ["enc", b, parts, epi] =>
    let ps := (unhexParts parts).map fun (ls, d) => (⟨ls, d⟩ : Spec.Part)
    let bd := Spec.encodeBody (unhexBytes b) ps (unhexBytes epi)
    some s!"{hexBytes bd} wf={show01 (decide (Spec.WFBody (unhexBytes b) ps))}"
  | _ => none

end Drv.Multipart
