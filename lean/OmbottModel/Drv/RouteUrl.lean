import OmbottModel.Drv.Common
import OmbottModel.Drv.Router
import OmbottModel.Model.RouteUrl
/-!
Protocol lines of the URL-building model (C19).  Lines are self-contained (stateless).

  `routeurl url <rule>|<cerr>|<args>|<kw>|<env>|<fenv>`
        `Route(rule).url(*args, **kw)` → `ok:<url>` | `err:<ErrName>` | `rule-err:<ErrName>`
  `routeurl rt <rule>|<cerr>|<path>|<env>|<fenv>`
        a router holding only `rule`; `resolve(path)`; the matched values handed to `url`
        (anonymous ones positionally); the built URL resolved again.
        → `add-err:<ErrName>` | `m=miss`
        | `d=<0|1> m=<values> s=<values|miss|-> u=err:<ErrName>`
        | `d=… m=<values> s=… u=ok:<url> m2=<values|miss> s2=<values|miss|->`
        `d` = the rule lies in the domain of the theorems (`urlDomain`, and no selector text
        unless it has a `rex` filter); the harness expects 1 for every rule it generates.
        `m`/`m2` come from the tree (`RadiDict.get`), `s`/`s2` from the rule-by-rule matcher
        `matchRule` the theorems are stated over (`-` when the rule has a `rex` filter, whose
        selectors that matcher does not cover).

Text is hex of UTF-8, `~` = empty list.  `cerr`, `env` as in `Drv/Router.lean`; `args` = values,
`kw` = `name=value,…`; `fenv` = `fid:value=ok.<text>|err.<ErrName>;…` (answers of the real
formatters).  The `int` handler and the `int` formatter on `int` values are computed by the
model, not looked up.  A formatter call that is not listed answers `err:unlisted-format`.
-/
namespace Drv.RouteUrl
open Py Drv Drv.Router Ombott.Router Ombott.RouteUrl

def parseVals (s : String) : Option (List Val) :=
  if s == "~" then some [] else (s.splitOn ",").mapM parseVal

def parseKw (s : String) : Option (List (Str × Val)) :=
  if s == "~" then some [] else
  (s.splitOn ",").mapM fun e =>
    match e.splitOn "=" with
    | [k, v] => (parseVal v).map fun v => (unhexStr k, v)
    | _ => none

abbrev FmtTable := List ((Str × Val) × Except ErrName Str)

def parseFenv (s : String) : Option FmtTable :=
  if s == "~" then some [] else
  (s.splitOn ";").mapM fun e =>
    match e.splitOn "=" with
    | [k, v] =>
      match k.splitOn ":" with
      | [f, val] => do
        let val ← parseVal val
        let r ← (if v.startsWith "ok." then some (.ok (unhexStr (v.drop 3).toString))
                 else if v.startsWith "err." then some (.error (v.drop 4).toString)
                 else none : Option (Except ErrName Str))
        pure ((unhexStr f, val), r)
      | _ => none
    | _ => none

def fenvOf (t : FmtTable) : FormatEnv := fun f v =>
  match t.find? (fun e => e.1.1 == f && e.1.2 == v) with
  | some (_, r) => r
  | none => .error "unlisted-format"

def showUrl : Except ErrName Str → String
  | .ok u => "ok:" ++ hexStr u
  | .error e => "err:" ++ e

def hasRex (p : List Sym) : Bool :=
  p.any fun | .tok (some f) => fidName f == "rex".toList | _ => false

def showMatch : Option (List Val) → String
  | some vs => showVals vs
  | none => "miss"

def showGet : Res → String
  | .hit _ _ vals _ => showVals vals
  | .miss .. => "miss"

def handle : List String → Option String
  | ["url", arg] =>
    match splitBar arg with
    | [rule, cerr, args, kw, env, fenv] => do
      let cerr ← parseCerr cerr
      let args ← parseVals args
      let kw ← parseKw kw
      let env ← parseEnv env
      let fenv ← parseFenv fenv
      let rule := unhexStr rule
      match parseRule (cenvOf cerr) rule with
      | .error e => pure ("rule-err:" ++ e)
      | .ok p =>
        if !inDomain rule p then none else
        let r : Route := { rule := rule, syms := p.syms, params := p.params, symsOut := p.symsOut }
        pure (showUrl (routeUrl (withInt (envOf env)) (fenvOf fenv) r args kw))
    | _ => none
  | ["rt", arg] =>
    match splitBar arg with
    | [rule, cerr, path, env, fenv] => do
      let cerr ← parseCerr cerr
      let env ← parseEnv env
      let fenv ← parseFenv fenv
      let rule := unhexStr rule
      let path := unhexStr path
      let cenv := cenvOf cerr
      match parseRule cenv rule with
      | .ok p => if inDomain rule p then pure () else none
      | .error _ => pure ()
      let (R, out) := ({} : Router).add asciiUpper cenv { rule := rule, methods := ["GET".toList], handler := 0 }
      match out with
      | .error e => pure ("add-err:" ++ e)
      | .ok id =>
        let r ← R.obj? id
        let env := withInt (envOf env)
        let spec (s : Str) : String := if hasRex r.syms then "-" else showMatch (matchRule env r.syms s)
        match treeGet env R.tree (stripSlash path) with
        | .miss .. => pure "m=miss"
        | .hit _ keys vals _ =>
          let head := s!"d={show01 (urlDomain r && (selFree r || hasRex r.syms))} m={showVals vals} s={spec (stripSlash path)}"
          let (a, k) := splitArgs keys vals
          match routeUrl env (fenvOf fenv) r a k with
          | .error e => pure s!"{head} u=err:{e}"
          | .ok u =>
            pure s!"{head} u=ok:{hexStr u} m2={showGet (treeGet env R.tree (stripSlash u))} s2={spec (stripSlash u)}"
    | _ => none
  | _ => none

end Drv.RouteUrl
