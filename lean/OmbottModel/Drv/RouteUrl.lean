import OmbottModel.Drv.Common
import OmbottModel.Drv.Router
import OmbottModel.Model.RouteUrl
import OmbottModel.Model.RouterBuiltinEnv
/-!
Protocol lines of the URL-building model (C19).  Lines are self-contained (stateless).

  `routeurl url <rule>|<cerr>|<args>|<kw>|<env>|<fenv>`
        `Route(rule).url(*args, **kw)` → `ok:<url>` | `err:<ErrName>` | `rule-err:<ErrName>`
  `routeurl rt <rule>|<cerr>|<path>|<env>|<fenv>`
        a router holding only `rule`; `resolve(path)`; the matched values handed to `url`
        (anonymous ones positionally); the built URL resolved again.
        → `add-err:<ErrName>` | `m=miss`
        | `d=<0|1> m=<values> s=<values|miss|-> u=err:<ErrName>`
        | `d=… m=<values> s=… u=ok:<url> m2=<values|miss> s2=<values|miss|->`
        `d` = the rule lies in the domain of the theorems (`urlDomain`, and no selector text
        unless it has a `rex` filter); the harness expects 1 for every rule it generates.
        `m`/`m2` come from the tree (`RadiDict.get`), `s`/`s2` from the rule-by-rule matcher
        `matchRule` the theorems are stated over (`-` when the rule has a `rex` filter, whose
        selectors that matcher does not cover).

  `routeurl hyp <rule>|<cerr>|<path>|<env>|<fenv>`
        the hypotheses of `url_rematch_builtin` evaluated on the match of `path`, and whether the URL
        built from the matched values is matched again with the same values
        → `add-err` | `miss` | `h=<0|1> r=<0|1>`   (`h` = `urlDomain ∧ selFree ∧ builtinOnly ∧ ¬convAfterTok ∧ sideOK`)

The handlers of `int`, `float`, `path` and the formatters of `int` (on `int` values) and `float` (on
finite `float` values) are computed by the model (`Builtins.withBuiltin`, `Builtins.withFloatFmt`);
the shipped answers are consulted for user regular expressions, for `float(text)` outside the
exactly modelled domain and for formatter calls on other values.

Text is hex of UTF-8, `~` = empty list.  `cerr`, `env` as in `Drv/Router.lean`; `args` = values,
`kw` = `name=value,…`; `fenv` = `fid:value=ok.<text>|err.<ErrName>;…` (answers of the real
formatters).  The `int` handler and the `int` formatter on `int` values are computed by the
model, not looked up.  A formatter call that is not listed answers `err:unlisted-format`.
-/
namespace Drv.RouteUrl
open Py Drv Drv.Router Ombott.Router Ombott.RouteUrl

def parseVals (s : String) : Option (List Val) :=
  if s == "~" then some [] else (s.splitOn ",").mapM parseVal

def parseKw (s : String) : Option (List (Str × Val)) :=
  if s == "~" then some [] else
  (s.splitOn ",").mapM fun e =>
    match e.splitOn "=" with
    | [k, v] => (parseVal v).map fun v => (unhexStr k, v)
    | _ => none

abbrev FmtTable := List ((Str × Val) × Except ErrName Str)

def parseFenv (s : String) : Option FmtTable :=
  if s == "~" then some [] else
  (s.splitOn ";").mapM fun e =>
    match e.splitOn "=" with
    | [k, v] =>
      match k.splitOn ":" with
      | [f, val] => do
        let val ← parseVal val
        let r ← (if v.startsWith "ok." then some (.ok (unhexStr (v.drop 3).toString))
                 else if v.startsWith "err." then some (.error (v.drop 4).toString)
                 else none : Option (Except ErrName Str))
        pure ((unhexStr f, val), r)
      | _ => none
    | _ => none

def fenvOf (t : FmtTable) : FormatEnv := fun f v =>
  match t.find? (fun e => e.1.1 == f && e.1.2 == v) with
  | some (_, r) => r
  | none => .error "unlisted-format"

def showUrl : Except ErrName Str → String
  | .ok u => "ok:" ++ hexStr u
  | .error e => "err:" ++ e

def hasRex (p : List Sym) : Bool :=
  p.any fun | .tok (some f) => fidName f == "rex".toList | _ => false

def showMatch : Option (List Val) → String
  | some vs => showVals vs
  | none => "miss"

def showGet : Res → String
  | .hit _ _ vals _ => showVals vals
  | .miss .. => "miss"

def handle : List String → Option String
  | ["url", arg] =>
    match splitBar arg with
    | [rule, cerr, args, kw, env, fenv] => do
      let cerr ← parseCerr cerr
      let args ← parseVals args
      let kw ← parseKw kw
      let env ← parseEnv env
      let fenv ← parseFenv fenv
      let rule := unhexStr rule
      match parseRule (cenvOf cerr) rule with
      | .error e => pure ("rule-err:" ++ e)
      | .ok p =>
        if !inDomain rule p then none else
        let r : Route := { rule := rule, syms := p.syms, params := p.params, symsOut := p.symsOut }
        pure (showUrl (routeUrl (envOfB env) (Ombott.Builtins.withFloatFmt (fenvOf fenv)) r args kw))
    | _ => none
  | ["rt", arg] =>
    match splitBar arg with
    | [rule, cerr, path, env, fenv] => do
      let cerr ← parseCerr cerr
      let env ← parseEnv env
      let fenv ← parseFenv fenv
      let rule := unhexStr rule
      let path := unhexStr path
      let cenv := cenvOf cerr
      match parseRule cenv rule with
      | .ok p => if inDomain rule p then pure () else none
      | .error _ => pure ()
      let (R, out) := ({} : Router).add asciiUpper cenv { rule := rule, methods := ["GET".toList], handler := 0 }
      match out with
      | .error e => pure ("add-err:" ++ e)
      | .ok id =>
        let r ← R.obj? id
        let env := envOfB env
        let fenv := Ombott.Builtins.withFloatFmt (fenvOf fenv)
        let spec (s : Str) : String := if hasRex r.syms then "-" else showMatch (matchRule env r.syms s)
        match treeGet env R.tree (stripSlash path) with
        | .miss .. => pure "m=miss"
        | .hit _ keys vals _ =>
          let head := s!"d={show01 (urlDomain r && (selFree r || hasRex r.syms))} m={showVals vals} s={spec (stripSlash path)}"
          let (a, k) := splitArgs keys vals
          match routeUrl env fenv r a k with
          | .error e => pure s!"{head} u=err:{e}"
          | .ok u =>
            pure s!"{head} u=ok:{hexStr u} m2={showGet (treeGet env R.tree (stripSlash u))} s2={spec (stripSlash u)}"
    | _ => none
  | ["hyp", arg] =>
    match splitBar arg with
    | [rule, cerr, path, envt, fenv] => do
      let cerr ← parseCerr cerr
      let envt ← parseEnv envt
      let fenv ← parseFenv fenv
      let rule := unhexStr rule
      let path := unhexStr path
      let cenv := cenvOf cerr
      match parseRule cenv rule with
      | .ok p => if inDomain rule p then pure () else none
      | .error _ => pure ()
      let (R, out) := ({} : Router).add asciiUpper cenv { rule := rule, methods := ["GET".toList], handler := 0 }
      match out with
      | .error _ => pure "add-err"
      | .ok id =>
        let r ← R.obj? id
        let fc := fcOf envt
        let env := envOfB envt
        let fenv := Ombott.Builtins.withFloatFmt (fenvOf fenv)
        match treeGet env R.tree (stripSlash path) with
        | .miss .. => pure "miss"
        | .hit _ keys vals _ =>
          let h := urlDomain r && selFree r && Ombott.Builtins.builtinOnly r.syms &&
            !Ombott.Builtins.convAfterTok r.syms && Ombott.Builtins.sideOK fc env fenv r.syms vals
          let (a, k) := splitArgs keys vals
          let re := match routeUrl env fenv r a k with
            | .error _ => false
            | .ok u =>
              match treeGet env R.tree (stripSlash u) with
              | .hit _ _ vals2 _ => vals2 == vals
              | .miss .. => false
          pure s!"h={show01 h} r={show01 re}"
    | _ => none
  | _ => none

end Drv.RouteUrl
