import OmbottModel.Drv.Common
import OmbottModel.Model.Forms
import OmbottModel.Model.FormsShared
import OmbottModel.Model.BodyAccess
import OmbottModel.Gen.Forms
/-!
Protocol lines of the forms area (all self-contained; text as hex of UTF-8, `~` = `None`):

* `forms hdr <line>` — `FieldStorage.parse_header`: `ok <name> <value> <k>:<v>,…` | `err <Class>`
* `forms lines <text>` — `str.splitlines`
* `forms dec <bytes>` — strict UTF-8 `bytes.decode()`: `ok <text>` | `err`
* `forms bnd <content-type>` — the boundary `_body` hands to `MultipartMarkup`: `none` | `some <text>`
* `forms proxy <body> <spooled> <st> <en> <ops>` — a `BytesIOProxy(src, st, en)`; ops `.`-separated:
  `r` = `read()`, `r<k>` = `read(k)`, `s<pos>/<whence>` = `seek`, `t` = `tell`
* `forms proxies <body> <spooled> <windows> <ops>` — several `BytesIOProxy` windows (`st:en,…`) over one shared
  source; ops `.`-separated `<i>@<op>` (op as above, on window `i`) | `B@r<k>` (`src.read(k)`) | `B@s<pos>` (`src.seek(pos)`);
  an exception is printed (`err:<Class>`) and the run goes on
* `forms items <body> <spooled> <max_read> <markups>` — `FieldStorage.iter_items` run to the end
  (markups `d:<s>:<e>` / `h:<s>:<e>`, `.`-separated, `-` = none)
* `forms enc <boundary> <fields> <epilogue>` — the encoder; fields `;`-separated
  `t:<name>:<value>` | `f:<name>:<filename>:<ctype>:<content>`
* `forms req <content-type> <content_length> <max_memfile> <framing> <json> <accessors>` — the body
  accessors of one request read in the given order (`b j p f F`, `,`-separated); framing
  `c:<chunks>` | `e:parsing` | `e:size`; json = what `json.loads` does on the body string
  (`N` null, `D` object, `O` other, `V` ValueError, `R` RecursionError, `T` TypeError); the answer lists the outcome
  of every access and `final=` the status of the first failed one (the handler re-raises it)
-/
namespace Drv.Forms
open Py Drv Ombott.Multipart Ombott.Forms Ombott.BodyAccess

def showOptStr : Option Str → String
  | none => "~"
  | some s => hexStr s

def showOpts (o : List (Str × Option Str)) : String :=
  if o.isEmpty then "-" else ",".intercalate (o.map fun (k, v) => s!"{hexStr k}:{showOptStr v}")

def showField (f : FieldS) : String :=
  let file := match f.file with
    | some (s, e) => s!"{s}:{e}"
    | none => "~"
  s!"({hexStr f.name}|{showOptStr f.value}|{showOptStr f.filename}|{file}|{showOptStr f.ctype})"

def parseMarkups (s : String) : Option (List Markup) :=
  if s == "-" then some [] else
  (s.splitOn ".").mapM fun m =>
    match m.splitOn ":" with
    | [n, a, b] => do
      let a ← a.toInt?
      let b ← b.toInt?
      let n ← (if n == "d" then some SecName.data else if n == "h" then some SecName.headers else none)
      pure ⟨n, a, b⟩
    | _ => none

def parseFields (s : String) : Option (List Field) :=
  if s == "~" then some [] else
  (s.splitOn ";").mapM fun f =>
    match f.splitOn ":" with
    | ["t", n, v] => some (.text (unhexStr n) (unhexStr v))
    | ["f", n, fn, ct, c] => some (.file (unhexStr n) (unhexStr fn) (optStr ct) (unhexBytes c))
    | _ => none

/-- run proxy operations, collecting the printed results -/
def proxyOps (body : Bytes) (sp : Bool) : Proxy → List String → List String → List String
  | _, [], acc => acc
  | p, op :: ops, acc =>
    if op == "t" then proxyOps body sp p ops (acc ++ [toString p.tell])
    else if op.startsWith "r" then
      let arg := (op.drop 1).toString
      let sz : Option Int := if arg.isEmpty then none else arg.toInt?
      match p.read body sp sz with
      | .error e => acc ++ [s!"err:{e.name}"]
      | .ok (b, p') => proxyOps body sp p' ops (acc ++ [hexBytes b])
    else if op.startsWith "s" then
      match ((op.drop 1).toString.splitOn "/") with
      | [pos, wh] =>
        match pos.toInt?, wh.toNat? with
        | some pos, some wh =>
          match p.seek pos wh with
          | .error e => acc ++ [s!"err:{e.name}"]
          | .ok p' => proxyOps body sp p' ops (acc ++ [toString p'.tell])
        | _, _ => acc ++ ["bad"]
      | _ => acc ++ ["bad"]
    else acc ++ ["bad"]

def showOut : Out → String
  | .bytes b => hexBytes b
  | .num n => toString n
  | .err e => s!"err:{e.name}"

def parseWOp (op : String) : Option WOp :=
  if op == "t" then some .tell
  else if op == "r" then some (.read none)
  else if op.startsWith "r" then (op.drop 1).toString.toInt?.map fun k => .read (some k)
  else if op.startsWith "s" then
    match ((op.drop 1).toString.splitOn "/") with
    | [pos, wh] => do
      let pos ← pos.toInt?
      let wh ← wh.toNat?
      pure (.seek pos wh)
    | _ => none
  else none

def parseSOp (s : String) : Option SOp :=
  match s.splitOn "@" with
  | ["B", op] =>
    if op.startsWith "r" then (op.drop 1).toString.toInt?.map .srcRead
    else if op.startsWith "s" then (op.drop 1).toString.toNat?.map .srcSeek
    else none
  | [i, op] => do
    let i ← i.toNat?
    let op ← parseWOp op
    pure (.win i op)
  | _ => none

def parseWindows (s : String) : Option (List Proxy) :=
  if s == "-" then some [] else
  (s.splitOn ",").mapM fun w =>
    match w.splitOn ":" with
    | [a, b] => do
      let a ← a.toInt?
      let b ← b.toInt?
      pure (Proxy.new a b)
    | _ => none

def showItem (body : Bytes) (sp : Bool) : Item → String
  | .text v => s!"t:{showOptStr v}"
  | .file u =>
    let content := match windowBytes body sp u.file.1 u.file.2 with
      | .ok b => hexBytes b
      | .error e => s!"err:{e.name}"
    s!"f:{hexStr u.name}:{hexStr u.rawFilename}:{showOptStr u.contentType}:{content}"

def showPVal (body : Bytes) (sp : Bool) : PVal → String
  | .one i => showItem body sp i
  | .many l => "[" ++ " ".intercalate (l.map (showItem body sp)) ++ "]"

def showDict (body : Bytes) (sp : Bool) : Dict → String
  | .fields d => "{" ++ ";".intercalate (d.map fun (k, v) => s!"{hexStr k}={showPVal body sp v}") ++ "}"
  | .urlencoded _ => "dict"
  | .jsonObject => "dict"
  | .empty => "dict"

def showJVal : JVal → String
  | .null => "null" | .object => "object" | .other => "other"

def showOutcome (body : Bytes) (sp : Bool) : Except Exc Val → String
  | .ok (.body b) => s!"ok body:{hexBytes b}"
  | .ok (.json j) => s!"ok json:{showJVal j}"
  | .ok (.dict d) => s!"ok {showDict body sp d}"
  | .error (.py (.http st)) => s!"http {st}"
  | .error e => s!"raise {e.name}"

def parseAcc : String → Option Accessor
  | "b" => some .body | "j" => some .json | "p" => some .post | "f" => some .forms | "F" => some .files
  | _ => none

def parseJson : String → Option JRes
  | "N" => some .null | "D" => some .object | "O" => some .other
  | "V" => some (.raises (.py .valueError)) | "R" => some (.raises (.other "RecursionError"))
  | "T" => some (.raises (.py .typeError))
  | _ => none

def parseFraming (s : String) : Option (Except FrErr (List Bytes)) :=
  if s == "e:parsing" then some (.error .parsing)
  else if s == "e:size" then some (.error .size)
  else if s.startsWith "c:" then some (.ok (unhexBytesList (s.drop 2).toString))
  else none

def handle : List String → Option String
  | ["hdr", s] =>
    some (match parseHeader (unhexStr s) with
      | .ok h => s!"ok {hexStr h.name} {hexStr h.value} {showOpts h.options}"
      | .error e => s!"err {e.name}")
  | ["lines", s] => some (hexStrList (splitlines (unhexStr s)))
  | ["dec", b] =>
    some (match utf8Decode (unhexBytes b) with
      | some s => s!"ok {hexStr s}"
      | none => "err")
  | ["bnd", ct] =>
    some (match boundaryOf (unhexStr ct) with
      | some b => s!"some {hexStr b}"
      | none => "none")
  | ["proxy", body, sp, st, en, ops] => do
    let st ← st.toInt?
    let en ← en.toInt?
    pure (",".intercalate (proxyOps (unhexBytes body) (bool01 sp) (Proxy.new st en) (ops.splitOn ".") []))
  | ["proxies", body, sp, wins, ops] => do
    let wins ← parseWindows wins
    let ops ← (ops.splitOn ".").mapM parseSOp
    let outs := runShared wins ⟨unhexBytes body, bool01 sp, 0⟩ ops
    pure (",".intercalate (outs.map fun o => showOut o.2))
  | ["items", body, sp, mr, ms] => do
    let mr ← mr.toInt?
    let ms ← parseMarkups ms
    let y := iterItems (unhexBytes body) (bool01 sp) ms mr
    let exc := match y.exc with | some e => e.name | none => "-"
    pure s!"items={String.join (y.items.map showField)} exc={exc}"
  | ["enc", b, fields, epi] => do
    let fs ← parseFields fields
    pure (hexBytes (encodeForm (unhexStr b) fs (unhexBytes epi)))
  | ["req", ct, cl, mm, fr, js, accs] => do
    let cl ← cl.toInt?
    let mm ← mm.toNat?
    let fr ← parseFraming fr
    let jr ← parseJson js
    let accs ← (accs.splitOn ",").mapM parseAcc
    let cfg : Cfg := ⟨mm, Ombott.Gen.formsErrorsMap⟩
    let req : Req := ⟨optStr ct, cl, fr⟩
    let body := match fr with | .ok cs => cs.flatten | .error _ => []
    let sp := spooled cfg body
    let outs := accessSeq cfg (fun _ => jr) req {} accs
    let final := match outs.find? (fun o => !o.isOk) with
      | some o => statusOf o
      | none => 200
    pure (" | ".intercalate (outs.map (showOutcome body sp)) ++ s!" final={final}")
  | _ => none

end Drv.Forms
