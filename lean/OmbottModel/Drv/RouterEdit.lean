import OmbottModel.Drv.Router
import OmbottModel.Model.RouterEdit
/-!
Protocol lines of the router edit model (C11).  One line = one edit history with its probes:

  `redit hist <op> <op> …`          answer: one token per op, blank separated

ops: the ops of `Drv/Router.lean` (`A`, `R`, `G`, `W`, `D`, `N`) and
  `X|rule|cerr`            `RadiRouter.remove(rule)`              → `ok` | `err:<ErrName>`
  `XN|name`                `RadiRouter.remove(name=name)`         → `ok` | `err:<ErrName>`
  `H|rule|type|cerr`       `RadiRouter.add_hook(rule, hook, type)`; hook id = position of the op,
                           type `0` simple / `1` partial           → `ok:<pattern>` | `err:<ErrName>`
  `XH|rule|cerr`           `RadiRouter.remove_hook(rule)`         → `ok` | `err:<ErrName>`
  `I|name`                 `RadiRouter[name]`                     → `route:<pattern>:<methods>` | `none`
  `IR|rule|cerr`           `RadiRouter[{rule}]`                   → same | `err:<ErrName>`
  `K|rule|cerr`            `RadiRouter.get_hook(rule)`            → `pair:<simple>:<partial>` | `err:<ErrName>`
  `L`                      the indexes: `routes=<sorted patterns>;named=<sorted name=pattern>;hooks=<sorted patterns>`
  `P|path|methods|env`     `RadiRouter.resolve(path, methods)` with the hooks delivered
        → `hit:<handler>:<method>:<kwargs>:<hooks>` | `404:<values>:<hooks>:<partial>` | `405:<allow>`
          hooks = `pos.simple.partial,…`
  `V|verb|path|env`        a request through `Ombott.__call__`, hooks observed
        → `ran:<handler>:<method>:<kwargs>:<fired>` | `404` | `404h:<hook>:<arg>:<values>` | `405:<allow>`
          fired = `hook@arg,…`
  `FS|paths|methods|env`   model-side comparison of the edited router with `Router.fresh` (the
                           router rebuilt from its survivors, `Model/RouterEdit.lean` section 11):
                           answers and delivered hooks for the paths, every name, the routes index
                           → `same` | `diff:<what>`; on the implementation side the edited
                           application is compared with one rebuilt from the survivors
`<methods>` of a route = `METHOD=handler,…` sorted.
-/
namespace Drv.RouterEdit
open Py Drv Ombott.Router Drv.Router

def showOptNat : Option Nat → String
  | some n => toString n
  | none => "~"

def showHooks (hs : List (Nat × HookPair)) : String :=
  if hs.isEmpty then "-" else
  ",".intercalate (hs.map fun (pos, hp) => s!"{pos}.{showOptNat hp.simple}.{showOptNat hp.partialHook}")

def showFired (fs : List (Nat × Str)) : String :=
  if fs.isEmpty then "-" else ",".intercalate (fs.map fun (h, a) => s!"{h}@{hexStr a}")

def showRoute (R : Router) (id : Nat) : String :=
  match R.obj? id with
  | none => "fault"
  | some r =>
    let ms := sortStrs (r.methods.map (·.1))
    let txt := ms.map fun m =>
      match dictGet r.methods m with
      | some rm => hexStr m ++ "=" ++ toString rm.handler
      | none => "?"
    s!"route:{hexStr r.pattern}:{if txt.isEmpty then "~" else ",".intercalate txt}"

def showIndexes (R : Router) : String :=
  let routes := sortStrs (R.routes.map (·.1))
  let named := sortStrs (R.named.map (·.1))
  let namedTxt := named.map fun n =>
    match dictGet R.named n with
    | some id => hexStr n ++ "=" ++ patternOf R id
    | none => "?"
  let hooks := sortStrs (R.hookIdx.map (·.1))
  s!"routes={hexStrList routes};named={if namedTxt.isEmpty then "~" else ",".intercalate namedTxt};hooks={hexStrList hooks}"

def showOutcome : Except ErrName Unit → String
  | .ok _ => "ok"
  | .error e => "err:" ++ e

/-- `NoLitTok` of the theorems, as a test: no literal marker character in the parsed pattern -/
def noLitTok (p : List Sym) : Bool := p.all fun | .lit c => c != Ombott.Gen.paramToken | .tok _ => true

def inDom (cenv : CompileEnv) (rule : Str) : Bool :=
  match parseRule cenv rule with
  | .ok p => inDomain rule p && noLitTok p.syms
  | .error _ => true

/-- removal only uses the pattern string: the marker character must not occur in the rule text -/
def noMarker (cenv : CompileEnv) (rule : Str) : Bool :=
  !rule.contains Ombott.Gen.paramToken &&
    match parseRule cenv rule with
    | .ok p => noLitTok p.syms
    | .error _ => true

/-- hits with handler, method, kwargs and hooks; 404 / 405 by status and `Allow` -/
def showAnswer : Resolved → String
  | .found h m kw hooks => s!"hit:{h}:{hexStr m}:{showKwargs kw}:{showHooks hooks}"
  | .notFound .. => "404"
  | .notAllowed a => s!"405:{hexStr a}"
  | .fault => "fault"

def showNameView (R : Router) (nm : Str) : String :=
  match R.byName nm with
  | some id => showRoute R id
  | none => "none"

/-- first difference between the edited router and the one rebuilt from its survivors -/
def freshDiff (R : Router) (env : FilterEnv) (paths : List Str) (ms : List Str) : Option String :=
  let F := R.fresh
  let d1 := paths.findSome? fun p =>
    let a := showAnswer (R.resolve env p ms)
    let b := showAnswer (F.resolve env p ms)
    if a == b then none else some s!"path:{hexStr p}:{a}:{b}"
  let d2 := (R.named.map (·.1)).findSome? fun nm =>
    let a := showNameView R nm
    let b := showNameView F nm
    if a == b then none else some s!"name:{hexStr nm}:{a}:{b}"
  let d3 :=
    if sortStrs (R.routes.map (·.1)) == sortStrs (F.routes.map (·.1)) &&
        sortStrs (R.named.map (·.1)) == sortStrs (F.named.map (·.1)) then none
    else some "indexes"
  d1.orElse fun _ => d2.orElse fun _ => d3

def stepOp (st : St) (idx : Nat) (op : String) : Option (St × String) :=
  match splitBar op with
  | ["FS", paths, methods, env] => do
    let env ← parseEnv env
    let ms := unhexStrList methods
    if ms.isEmpty then none
    pure (st, match freshDiff st.R (envOf env) (unhexStrList paths) ms with
      | none => "same"
      | some d => "diff:" ++ d)
  | ["X", rule, cerr] => do
    let cenv := cenvOf (← parseCerr cerr)
    let rule := unhexStr rule
    if !noMarker cenv rule then none
    let (R, out) := st.R.removeRule cenv rule
    pure ({ st with R := R }, showOutcome out)
  | ["XN", name] => do
    let (R, out) := st.R.removeName (unhexStr name)
    pure ({ st with R := R }, showOutcome out)
  | ["H", rule, ty, cerr] => do
    let cenv := cenvOf (← parseCerr cerr)
    let rule := unhexStr rule
    if !inDom cenv rule then none
    let (R, out) := st.R.addHook cenv rule idx (bool01 ty)
    pure ({ st with R := R }, match out with | .ok p => "ok:" ++ hexStr p | .error e => "err:" ++ e)
  | ["XH", rule, cerr] => do
    let cenv := cenvOf (← parseCerr cerr)
    let rule := unhexStr rule
    if !noMarker cenv rule then none
    let (R, out) := st.R.removeHook cenv rule
    pure ({ st with R := R }, showOutcome out)
  | ["I", name] =>
    pure (st, match st.R.byName (unhexStr name) with
      | some id => showRoute st.R id
      | none => "none")
  | ["IR", rule, cerr] => do
    let cenv := cenvOf (← parseCerr cerr)
    pure (st, match st.R.byRule cenv (unhexStr rule) with
      | .ok (some id) => showRoute st.R id
      | .ok none => "none"
      | .error e => "err:" ++ e)
  | ["K", rule, cerr] => do
    let cenv := cenvOf (← parseCerr cerr)
    pure (st, match st.R.getHook cenv (unhexStr rule) with
      | .ok hp => s!"pair:{showOptNat hp.simple}:{showOptNat hp.partialHook}"
      | .error e => "err:" ++ e)
  | ["L"] => pure (st, showIndexes st.R)
  | ["P", path, methods, env] => do
    let env ← parseEnv env
    let ms := unhexStrList methods
    if ms.isEmpty then none
    pure (st, match st.R.resolve (envOf env) (unhexStr path) ms with
      | .found h m kw hooks => s!"hit:{h}:{hexStr m}:{showKwargs kw}:{showHooks hooks}"
      | .notFound vals hooks p => s!"404:{showVals vals}:{showHooks hooks}:{hexStr p}"
      | .notAllowed a => s!"405:{hexStr a}"
      | .fault => "fault")
  | ["V", verb, path, env] => do
    let env ← parseEnv env
    pure (st, match st.R.serve asciiUpper (envOf env) (unhexStr verb) (unhexStr path) with
      | .ran h m kw fired => s!"ran:{h}:{hexStr m}:{showKwargs kw}:{showFired fired}"
      | .notFoundHook h a vals => s!"404h:{h}:{hexStr a}:{showVals vals}"
      | .notFound => "404"
      | .notAllowed a => s!"405:{hexStr a}"
      | .fault => "fault")
  | _ => Drv.Router.stepOp st idx op

def runOps : St → Nat → List String → Option (List String)
  | _, _, [] => some []
  | st, i, op :: ops => do
    let (st', out) ← stepOp st i op
    let rest ← runOps st' (i + 1) ops
    pure (out :: rest)

def handle : List String → Option String
  | "hist" :: ops => (runOps {} 0 ops).map fun outs => " ".intercalate outs
  | _ => none

end Drv.RouterEdit
