import OmbottModel.Drv.Common
import OmbottModel.Model.WsgiHeaders
import OmbottModel.Model.FormsDict
import OmbottModel.Model.ReqProps
import OmbottModel.Model.Cookies
/-! Protocol lines of area `helpers` (the request helper classes; correspondence streams of C15 and C18).  Text is hex
of UTF-8 (`-` = empty), `~` = `None` / the empty list.  Every line is self-contained: a whole accessor sequence on one
object, the answers joined by `;`.

    helpers hdr <env> <op>,<op>,…      env = `k:s:v` / `k:b:bytes` entries joined by `,` (`~` = {})
        g/<name> r/<name> c/<name> G/<name>/<default|~> k l i e/<name>            reads
        S/<k>/<v> D/<k> P/<k>/<default|~> I C U/<k=v+k=v|~> T/<k>/<d>              mutators → `<answer>!same|!changed`
    helpers fd <src> <op>,…            src = q/<qs> | f/<body bytes> | p/<qs>/<body bytes>
        g/<k> G/<k>/<default|~> c/<k> k l a/<name> y
    helpers cd <src> <op>,…            src = h/<Cookie header> | p/<k=v+k=v|~>
        g/<k> G/<k>/<d|~> u/<k>/<default|~>/<encoding|~> a/<name> d/<encoding|~> k
    helpers auth <Authorization|~> <REMOTE_USER|~>
    helpers rr <X-Forwarded-For|~> <REMOTE_ADDR|~>
    helpers xhr <X-Requested-With|~>
    helpers b64d <bytes> | split1 <text> | basic <scheme> <sep> <user> <password> | join <list>
-/
namespace Drv.Helpers
open Py Drv

def optS (s : String) : Option Str := if s == "~" then none else some (unhexStr s)

def showOptS : Option Str → String
  | none => "n"
  | some s => "s" ++ hexStr s

def joinAns (l : List String) : String := ";".intercalate l

def readKV (s : String) : Option (List (Str × Str)) :=
  if s == "~" then some [] else
  (s.splitOn "+").mapM fun p =>
    match p.splitOn "=" with
    | [k, v] => some (unhexStr k, unhexStr v)
    | _ => none

def showKV (l : List (Str × Str)) : String :=
  if l.isEmpty then "~" else "+".intercalate (l.map fun (k, v) => s!"{hexStr k}={hexStr v}")

/-! ### the header view -/
section Hdr
open Ombott.WsgiHeaders

def readEnv (s : String) : Option Env :=
  if s == "~" then some [] else
  (s.splitOn ",").mapM fun p =>
    match p.splitOn ":" with
    | [k, "s", v] => some (unhexStr k, HV.str (unhexStr v))
    | [k, "b", v] => some (unhexStr k, HV.bytes (unhexBytes v))
    | _ => none

def showHV : Option HV → String
  | none => "n"
  | some (.str s) => "s" ++ hexStr s
  | some (.bytes b) => "b" ++ hexBytes b

def showOut : Except Err Out → String
  | .error e => "e" ++ e.name
  | .ok .none => "ok:n"
  | .ok (.str s) => "ok:s" ++ hexStr s
  | .ok (.pair k v) => s!"ok:p{hexStr k}={hexStr v}"

def mutate (e : Env) (op : Op) : String × Env :=
  let (r, e') := applyOp e op
  (showOut r ++ (if e' == e then "!same" else "!changed"), e')

def hdrOp (e : Env) (t : String) : Option (String × Env) :=
  match t.splitOn "/" with
  | ["g", n] => some (match getitem e (unhexStr n) with | .ok s => "s" ++ hexStr s | .error x => "e" ++ x.name, e)
  | ["r", n] => some (showHV (raw e (unhexStr n)), e)
  | ["c", n] => some (show01 (contains e (unhexStr n)), e)
  | ["G", n, d] => some (showOptS (get e (unhexStr n) (optS d)), e)
  | ["k"] => some (hexStrList (keys e), e)
  | ["l"] => some (toString (len e), e)
  | ["i"] => some (match items e with | .ok l => showKV l | .error x => "e" ++ x.name, e)
  | ["e", n] => some (hexStr (ekey (unhexStr n)), e)
  | ["S", k, v] => some (mutate e (.setitem (unhexStr k) (unhexStr v)))
  | ["D", k] => some (mutate e (.delitem (unhexStr k)))
  | ["P", k, d] => some (mutate e (.pop (unhexStr k) (optS d)))
  | ["I"] => some (mutate e .popitem)
  | ["C"] => some (mutate e .clear)
  | ["U", ps] => (readKV ps).map fun l => mutate e (.update l)
  | ["T", k, d] => some (mutate e (.setdefault (unhexStr k) (unhexStr d)))
  | _ => none

def hdrOps : Env → List String → Option (List String)
  | _, [] => some []
  | e, t :: r => do
    let (a, e') ← hdrOp e t
    let rest ← hdrOps e' r
    pure (a :: rest)

end Hdr

/-! ### `FormsDict` -/
section FD
open Ombott.Qs Ombott.FormsDict

def showVal : Val → String
  | .one s => s!"s:{hexStr s}"
  | .many l => "l:" ++ "/".intercalate (l.map hexStr)

def showOptVal : Option Val → String
  | none => "n"
  | some v => showVal v

def showDictV (d : Dict Val) : String :=
  if d.isEmpty then "~" else ",".intercalate (d.map fun (k, v) => s!"{hexStr k}:{showVal v}")

def fdSrc (t : String) : Option (Except Err (Dict Val)) :=
  match t.splitOn "/" with
  | ["q", qs] => some (query (unhexStr qs))
  | ["f", b] => some (forms (unhexBytes b))
  | ["p", qs, b] => some (params (unhexStr qs) (unhexBytes b))
  | _ => none

def fdOp (d : Dict Val) (t : String) : Option String :=
  match t.splitOn "/" with
  | ["g", k] => some (match fdGetitem d (unhexStr k) with | .ok v => showVal v | .error x => "e" ++ x.name)
  | ["G", k, dflt] => some (showOptVal (fdGet d (unhexStr k) ((optS dflt).map Val.one)))
  | ["c", k] => some (show01 (fdContains d (unhexStr k)))
  | ["k"] => some (hexStrList (fdKeys d))
  | ["l"] => some (toString (fdLen d))
  | ["a", n] => some (match fdGetattr d (unhexStr n) with
      | .ok (.classAttr _) => "m"
      | .ok (.value v) => "v:" ++ showOptVal v
      | .error x => "e" ++ x.name)
  | ["y"] => some (showDictV (fdCopy d))
  | _ => none

end FD

/-! ### `CookieDict` -/
section CD
open Ombott.FormsDict

def cdSrc (t : String) : Option (Except String CD) :=
  match t.splitOn "/" with
  | ["h", hdr] => some (match requestCookies (unhexStr hdr) with
      | .ok c => .ok c
      | .error e => .error e.name)
  | ["p", ps] => (readKV ps).map fun l => .ok (cdOfPairs l)
  | _ => none

def showOptR : Except HErr (Option Str) → String
  | .ok v => showOptS v
  | .error x => "e" ++ x.name

def cdOp (c : CD) (t : String) : Option (String × CD) :=
  match t.splitOn "/" with
  | ["g", k] => some (match cdGetitem c (unhexStr k) with | .ok v => "s" ++ hexStr v | .error x => "e" ++ x.name, c)
  | ["G", k, d] => some (showOptS (cdGet c (unhexStr k) (optS d)), c)
  | ["u", k, d, enc] => some (showOptR (cdGetunicode c (unhexStr k) (optS d) (optS enc)), c)
  | ["a", n] => some (match cdGetattr c (unhexStr n) with
      | .ok (.classAttr _) => "m"
      | .ok (.value v) => "v:" ++ showOptS v
      | .error x => "e" ++ x.name, c)
  | ["d", enc] => some (match cdDecode c (optS enc) with
      | .ok c' => ("ok:" ++ showKV c'.items ++ ":" ++ hexStr c'.enc, c')
      | .error x => ("e" ++ x.name, c))
  | ["k"] => some (showKV c.items, c)
  | _ => none

def cdOps : CD → List String → Option (List String)
  | _, [] => some []
  | c, t :: r => do
    let (a, c') ← cdOp c t
    let rest ← cdOps c' r
    pure (a :: rest)

end CD

section Props
open Ombott.ReqProps

def showAuth : Except AErr (Option (Str × Option Str)) → String
  | .error _ => "eValueError"
  | .ok none => "n"
  | .ok (some (u, p)) => s!"t:{hexStr u}:" ++ (match p with | none => "~" | some s => hexStr s)

end Props

def ops (s : String) : List String := if s == "~" then [] else s.splitOn ","

def handle : List String → Option String
  | ["hdr", env, os] => do
    let e ← readEnv env
    (hdrOps e (ops os)).map joinAns
  | ["fd", src, os] => do
    match ← fdSrc src with
    | .error x => some ("err " ++ x.name)
    | .ok d => ((ops os).mapM (fdOp d)).map joinAns
  | ["cd", src, os] => do
    match ← cdSrc src with
    | .error x => some ("err " ++ x)
    | .ok c => (cdOps c (ops os)).map joinAns
  | ["auth", a, r] => some (showAuth (Ombott.ReqProps.auth (optS a) (optS r)))
  | ["rr", x, r] =>
    some (hexStrList (Ombott.ReqProps.remoteRoute (optS x) (optS r)) ++ "|" ++
      (match Ombott.ReqProps.remoteAddr (optS x) (optS r) with | none => "~" | some s => hexStr s))
  | ["xhr", v] => some (show01 (Ombott.ReqProps.isXhr (optS v)) ++ " " ++ show01 (Ombott.ReqProps.isAjax (optS v)))
  | ["b64d", b] => some (match Crypto.b64decodeLenient (unhexBytes b) with | some r => hexBytes r | none => "err")
  | ["split1", s] => some (hexStrList (Ombott.ReqProps.splitWs1 (unhexStr s)))
  | ["basic", sch, sep, u, p] =>
    some (hexStr (Ombott.ReqProps.basicHeader (unhexStr sch) (unhexStr sep) (unhexStr u) (unhexStr p)))
  | ["join", l] => some (hexStr (Ombott.ReqProps.joinComma (unhexStrList l)))
  | _ => none

end Drv.Helpers
