import OmbottModel.Drv.Common
import OmbottModel.Model.CookiesLib
/-! Protocol lines of the cookie model (C15).  Values: `t<hex>` text, `o<hex>` object token.
`<pk>` is the graph of `pickle.dumps` on the points the line needs: `name/value/bytes,…` (`~` empty);
`pickle.loads` is its inverse and fails elsewhere.

    cookie lscmp <a> <b>                         → 0|1
    cookie md5 <bytes> | hmac <key> <msg> | b64 <bytes> | unb64 <bytes>
    cookie quote <text> | unquote <text>
    cookie parse <header>                        → ok k=v,… | err CookieError
    cookie enc <pk> <name> <value> <secret>      → bytes of cookie_encode
    cookie dec <pk> <data> <secret>              → <result> calls=<list>
    cookie set <pk> <name>:<value>:<secret> …    → out=… hdrs=<Set-Cookie values> cookie=<client header>
    cookie get <pk> <header> <name> <secret>     → <result> calls=<list>
    cookie setvia <pk> <path> <op> … -- <op> …   cookies set on the live response (and, after `--`, on the
                                                 raised object), emitted via direct|copy|copy2|redirect|raised|errpage
    cookie req <pk> <header|~> <rop> …           one request object: g<i>:<name>:<secret> | s<i>:<key>:<value> |
                                                 d<i>:<key> | c (request 1 := copy of request 0) → answers of the gets
-/
namespace Drv.Cookies
open Py Drv Ombott.Cookies

def parseVal (t : String) : Option CVal :=
  match t.toList with
  | 't' :: r => some (.text (unhexStr (String.ofList r)))
  | 'o' :: r => some (.obj (unhexBytes (String.ofList r)))
  | _ => none

def showVal : CVal → String
  | .text s => "t" ++ hexStr s
  | .obj b => "o" ++ hexBytes b

def parsePk (t : String) : Option PkTable :=
  if t == "~" then some [] else
  (t.splitOn ",").mapM fun e =>
    match e.splitOn "/" with
    | [n, v, b] => (parseVal v).map fun v' => ((unhexStr n, v'), unhexBytes b)
    | _ => none

def lib (pk : PkTable) : Lib := concreteLib pk

def showRes : Except CErr (Option CVal) → String
  | .error e => "err " ++ e.name
  | .ok none => "ok none"
  | .ok (some v) => "ok " ++ showVal v

def showDec : Except CErr (Option (Str × CVal)) → String
  | .error e => "err " ++ e.name
  | .ok none => "ok none"
  | .ok (some (n, v)) => "ok " ++ hexStr n ++ "/" ++ showVal v

def parseSet (t : String) : Option (Str × CVal × Bytes) :=
  match t.splitOn ":" with
  | [n, v, s] => (parseVal v).map fun v' => (unhexStr n, v', unhexBytes s)
  | _ => none

def runSets (L : Lib) : Jar → List (Str × CVal × Bytes) → Jar × List String
  | jar, [] => (jar, [])
  | jar, (n, v, s) :: r =>
    match setCookie L jar n v s with
    | .ok jar' => let (j, o) := runSets L jar' r; (j, "ok" :: o)
    | .error e => let (j, o) := runSets L jar r; (j, e.name :: o)

def parsePath : String → Option EmitPath
  | "direct" => some .direct | "copy" => some .copy | "copy2" => some .copy2
  | "redirect" => some .redirect | "raised" => some .raised | "errpage" => some .errpage
  | _ => none

def parseReqOp (t : String) : Option ReqOp :=
  match t.splitOn ":" with
  | ["c"] => some .copy
  | [g, a, b] =>
    match g.toList with
    | ['g', i] => some (.get (i.toNat - 48) (unhexStr a) (unhexBytes b))
    | ['s', i] => some (.set (i.toNat - 48) (unhexStr a) (unhexStr b))
    | _ => none
  | [d, a] =>
    match d.toList with
    | ['d', i] => some (.del (i.toNat - 48) (unhexStr a))
    | _ => none
  | _ => none

def splitAt2 (l : List String) : List String × List String :=
  (l.takeWhile (· != "--"), (l.dropWhile (· != "--")).drop 1)

def handle : List String → Option String
  | ["lscmp", a, b] => some (show01 (lscmp (unhexBytes a) (unhexBytes b)))
  | ["md5", a] => some (hexBytes (Crypto.md5 (unhexBytes a)))
  | ["hmac", k, m] => some (hexBytes (Crypto.hmacMd5 (unhexBytes k) (unhexBytes m)))
  | ["b64", a] => some (hexBytes (Crypto.b64encode (unhexBytes a)))
  | ["unb64", a] => some (match Crypto.b64decode (unhexBytes a) with
      | some b => "ok " ++ hexBytes b
      | none => "err")
  | ["quote", s] => some (hexStr (quote (unhexStr s)))
  | ["unquote", s] => some (hexStr (unquote (unhexStr s)))
  | ["parse", h] => some (match parseCookies (unhexStr h) with
      | .error e => "err " ++ e.name
      | .ok items => "ok " ++ (if items.isEmpty then "~" else
          ",".intercalate (items.map fun (k, v) => hexStr k ++ "=" ++ hexStr v)))
  | ["enc", pk, n, v, s] => do
    let L := lib (← parsePk pk)
    pure (hexBytes (cookieEncode L (unhexStr n, ← parseVal v) (unhexBytes s)))
  | ["dec", pk, d, s] => do
    let L := lib (← parsePk pk)
    let (r, calls) := cookieDecode L (unhexBytes d) (unhexBytes s)
    pure s!"{showDec r} calls={hexBytesList calls}"
  | "set" :: pk :: ops => do
    let L := lib (← parsePk pk)
    let (jar, outs) := runSets L [] (← ops.mapM parseSet)
    let hdrs := emit jar
    pure s!"out={",".intercalate outs} hdrs={hexStrList hdrs} cookie={hexStr (clientHeader hdrs)}"
  | "setvia" :: pk :: path :: ops => do
    let L := lib (← parsePk pk)
    let p ← parsePath path
    let (a, b) := splitAt2 ops
    let (jar, outs) := runSets L [] (← a.mapM parseSet)
    let (rjar, routs) := runSets L [] (← b.mapM parseSet)
    let allOuts := outs ++ routs
    pure (match emitVia p jar rjar with
      | .error e => s!"out={",".intercalate allOuts} via={e.name}"
      | .ok j =>
        let hdrs := emit j
        s!"out={",".intercalate allOuts} via=ok hdrs={hexStrList hdrs} cookie={hexStr (clientHeader hdrs)}")
  | "req" :: pk :: h :: ops => do
    let L := lib (← parsePk pk)
    let r0 : Req := { hdr := optStr h, cache := none }
    let res := runReq L r0 r0 (← ops.mapM parseReqOp)
    pure (if res.isEmpty then "~" else
      " | ".intercalate (res.map fun (r, calls) => s!"{showRes r} calls={hexBytesList calls}"))
  | ["get", pk, h, n, s] => do
    let L := lib (← parsePk pk)
    let (r, calls) := getCookie L (unhexStr h) (unhexStr n) (unhexBytes s)
    pure s!"{showRes r} calls={hexBytesList calls}"
  | _ => none

end Drv.Cookies
