import OmbottModel.Drv.Common
import OmbottModel.Model.CookiesLib
/-! Protocol lines of the cookie model (C15).  Values: `t<hex>` text, `o<hex>` object token.
`<pk>` is the graph of `pickle.dumps` on the points the line needs: `name/value/bytes,…` (`~` empty);
`pickle.loads` is its inverse and fails elsewhere.

    cookie lscmp <a> <b>                         → 0|1
    cookie md5 <bytes> | hmac <key> <msg> | b64 <bytes> | unb64 <bytes>
    cookie quote <text> | unquote <text>
    cookie parse <header>                        → ok k=v,… | err CookieError
    cookie enc <pk> <name> <value> <secret>      → bytes of cookie_encode
    cookie dec <pk> <data> <secret>              → <result> calls=<list>
    cookie set <pk> <name>:<value>:<secret> …    → out=… hdrs=<Set-Cookie values> cookie=<client header>
    cookie get <pk> <header> <name> <secret>     → <result> calls=<list>
-/
namespace Drv.Cookies
open Py Drv Ombott.Cookies

def parseVal (t : String) : Option CVal :=
  match t.toList with
  | 't' :: r => some (.text (unhexStr (String.ofList r)))
  | 'o' :: r => some (.obj (unhexBytes (String.ofList r)))
  | _ => none

def showVal : CVal → String
  | .text s => "t" ++ hexStr s
  | .obj b => "o" ++ hexBytes b

def parsePk (t : String) : Option PkTable :=
  if t == "~" then some [] else
  (t.splitOn ",").mapM fun e =>
    match e.splitOn "/" with
    | [n, v, b] => (parseVal v).map fun v' => ((unhexStr n, v'), unhexBytes b)
    | _ => none

def lib (pk : PkTable) : Lib := concreteLib pk

def showRes : Except CErr (Option CVal) → String
  | .error e => "err " ++ e.name
  | .ok none => "ok none"
  | .ok (some v) => "ok " ++ showVal v

def showDec : Except CErr (Option (Str × CVal)) → String
  | .error e => "err " ++ e.name
  | .ok none => "ok none"
  | .ok (some (n, v)) => "ok " ++ hexStr n ++ "/" ++ showVal v

def parseSet (t : String) : Option (Str × CVal × Bytes) :=
  match t.splitOn ":" with
  | [n, v, s] => (parseVal v).map fun v' => (unhexStr n, v', unhexBytes s)
  | _ => none

def runSets (L : Lib) : Jar → List (Str × CVal × Bytes) → Jar × List String
  | jar, [] => (jar, [])
  | jar, (n, v, s) :: r =>
    match setCookie L jar n v s with
    | .ok jar' => let (j, o) := runSets L jar' r; (j, "ok" :: o)
    | .error e => let (j, o) := runSets L jar r; (j, e.name :: o)

def handle : List String → Option String
  | ["lscmp", a, b] => some (show01 (lscmp (unhexBytes a) (unhexBytes b)))
  | ["md5", a] => some (hexBytes (Crypto.md5 (unhexBytes a)))
  | ["hmac", k, m] => some (hexBytes (Crypto.hmacMd5 (unhexBytes k) (unhexBytes m)))
  | ["b64", a] => some (hexBytes (Crypto.b64encode (unhexBytes a)))
  | ["unb64", a] => some (match Crypto.b64decode (unhexBytes a) with
      | some b => "ok " ++ hexBytes b
      | none => "err")
  | ["quote", s] => some (hexStr (quote (unhexStr s)))
  | ["unquote", s] => some (hexStr (unquote (unhexStr s)))
  | ["parse", h] => some (match parseCookies (unhexStr h) with
      | .error e => "err " ++ e.name
      | .ok items => "ok " ++ (if items.isEmpty then "~" else
          ",".intercalate (items.map fun (k, v) => hexStr k ++ "=" ++ hexStr v)))
  | ["enc", pk, n, v, s] => do
    let L := lib (← parsePk pk)
    pure (hexBytes (cookieEncode L (unhexStr n, ← parseVal v) (unhexBytes s)))
  | ["dec", pk, d, s] => do
    let L := lib (← parsePk pk)
    let (r, calls) := cookieDecode L (unhexBytes d) (unhexBytes s)
    pure s!"{showDec r} calls={hexBytesList calls}"
  | "set" :: pk :: ops => do
    let L := lib (← parsePk pk)
    let (jar, outs) := runSets L [] (← ops.mapM parseSet)
    let hdrs := emit jar
    pure s!"out={",".intercalate outs} hdrs={hexStrList hdrs} cookie={hexStr (clientHeader hdrs)}"
  | ["get", pk, h, n, s] => do
    let L := lib (← parsePk pk)
    let (r, calls) := getCookie L (unhexStr h) (unhexStr n) (unhexBytes s)
    pure s!"{showRes r} calls={hexBytesList calls}"
  | _ => none

end Drv.Cookies
