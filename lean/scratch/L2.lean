import OmbottModel.Model.Cookies
import OmbottModel.Lemmas.Text
import OmbottModel.Lemmas.Cookies
namespace Ombott.Cookies
open Py

/-- what `cookie_decode` does once the MAC verified -/
def afterMac (L : Lib) (msg : Bytes) : Except CErr (Option (Str × CVal)) × List Bytes :=
  match L.unb64 msg with
  | none => (.error .b64Error, [])
  | some raw =>
    match L.unpickle raw with
    | some x => (.ok (some x), [raw])
    | none => (.error .unpickleError, [raw])

/-- `cookie_decode` either answers `None` without touching the unpickler, or its input is
`'!' + b64(hmac(key, msg)) + '?' + msg` for the message part it then decodes -/
theorem cookieDecode_cases (L : Lib) (data key : Bytes) :
    cookieDecode L data key = (.ok none, []) ∨
    ∃ msg, data = 33 :: (L.b64 (L.hmac key msg) ++ 63 :: msg) ∧ (63 : UInt8) ∉ L.b64 (L.hmac key msg) ∧
      cookieDecode L data key = afterMac L msg := by
  unfold cookieDecode
  split
  · rename_i henc
    split
    · exact Or.inl rfl
    · rename_i sig msg hsp
      split
      · rename_i hcmp
        right
        obtain ⟨hd, hns⟩ := splitFirst_spec 63 data sig msg hsp
        have hsig := (lscmp_iff_eq' _ _).mp hcmp
        simp only [isEncoded, Bool.and_eq_true, beq_iff_eq] at henc
        cases sig with
        | nil => rw [hd] at henc; simp at henc
        | cons s0 sig' =>
          rw [hd] at henc
          simp only [List.cons_append, List.head?_cons, Option.some.injEq] at henc
          simp only [List.drop_succ_cons, List.drop_zero] at hsig
          refine ⟨msg, ?_, ?_, ?_⟩
          · rw [hd, henc.1, hsig]; rfl
          · rw [← hsig]; intro h; exact hns (List.mem_cons_of_mem _ h)
          · unfold afterMac; rfl
      · exact Or.inl rfl
  · exact Or.inl rfl

end Ombott.Cookies
