import OmbottModel.Lemmas.Cookies
namespace Ombott.Cookies
open Py

/-! ### the set → emit → return → get chain -/

theorem unescaped_all : unescapedChars.all (fun c => c.toNat ≤ 127 && c != ';') = true := by decide

/-- what `_quote` prints for Latin-1 text is ASCII and has no `;` -/
theorem quote_chars (v : Str) (hv : ∀ c ∈ v, c.toNat < 256) : ∀ c ∈ quote v, c.toNat ≤ 127 ∧ c ≠ ';' := by
  intro c hc
  unfold quote at hc
  split at hc
  · rename_i hl
    simp only [isLegalKey, Bool.and_eq_true, List.all_eq_true] at hl
    have hf := isLegal_facts (hl.2 c hc)
    simp only [legalFacts, Bool.and_eq_true, decide_eq_true_eq, bne_iff_ne, ne_eq] at hf
    exact ⟨hf.1.1.1.1.1.1.1, hf.1.1.1.1.2⟩
  · simp only [List.mem_cons, List.mem_append, List.mem_flatMap, List.not_mem_nil, or_false] at hc
    rcases hc with rfl | ⟨x, hx, hcx⟩ | rfl
    · decide
    · have hx256 := hv x hx
      unfold translateChar at hcx
      split at hcx
      · simp only [List.mem_cons, List.not_mem_nil, or_false] at hcx
        rcases hcx with rfl | rfl <;> decide
      · split at hcx
        · simp only [List.mem_cons, List.not_mem_nil, or_false] at hcx
          rcases hcx with rfl | rfl <;> decide
        · split at hcx
          · rename_i hu
            simp only [List.mem_singleton] at hcx
            subst hcx
            have := List.all_eq_true.mp unescaped_all c (by simpa using hu)
            simpa using this
          · simp only [List.mem_cons, List.not_mem_nil, or_false] at hcx
            have hd : ∀ k, k ≤ 7 → (octDigit k).toNat ≤ 127 ∧ octDigit k ≠ ';' := by
              intro k hk
              have := octDigit_toNat k hk
              refine ⟨by omega, ?_⟩
              intro he
              rw [he] at this
              have h59 : (';' : Char).toNat = 59 := by decide
              omega
            rcases hcx with rfl | rfl | rfl | rfl
            · decide
            · exact hd _ (by omega)
            · exact hd _ (by omega)
            · exact hd _ (by omega)
    · decide

/-- the one `Set-Cookie` line for `name=coded` when everything in it is ASCII without `;`, and
what the client then sends -/
theorem wire_single (name coded : Str) (h : ∀ c ∈ name ++ '=' :: coded, c.toNat ≤ 127 ∧ c ≠ ';') :
    clientHeader (emit [(name, coded)]) = name ++ '=' :: coded := by
  simp only [emit, List.map_cons, List.map_nil]
  rw [transcode_ascii _ (fun c hc => (h c hc).1)]
  exact clientHeader_single _ (fun hs => (h ';' hs).2 rfl)

theorem wire_chars (name coded : Str) (hn : LegalName name) (hc : ∀ c ∈ coded, c.toNat ≤ 127 ∧ c ≠ ';') :
    ∀ c ∈ name ++ '=' :: coded, c.toNat ≤ 127 ∧ c ≠ ';' := by
  intro c hm
  simp only [List.mem_append, List.mem_cons] at hm
  rcases hm with h | rfl | h
  · exact legalName_chars hn c h
  · decide
  · exact hc c h

theorem jarSet_nil (k v : Str) : jarSet [] k v = [(k, v)] := by simp [jarSet]

/-- `set_cookie(name, value, secret)` on an empty jar, for a legal name and a cookie that fits -/
theorem setCookie_signed (L : Lib) (hb : B64Contract L) (name : Str) (value : CVal) (secret : Bytes)
    (hn : LegalName name) (hs : secret ≠ []) (hlen : (cookieEncode L (name, value) secret).length ≤ 4096) :
    setCookie L [] name value secret = .ok [(name, quote (latin1Dec (cookieEncode L (name, value) secret)))] := by
  have hse : secret.isEmpty = false := by simpa using hs
  have hdec := utf8Dec_ascii _ (encode_ascii L hb (name, value) secret)
  have hl : ¬ (latin1Dec (cookieEncode L (name, value) secret)).length > 4096 := by
    simp [latin1Dec]; omega
  unfold setCookie
  simp only [hse, Bool.not_false, if_true, hdec, bind, Except.bind, pure, Except.pure, hl, if_false,
    hn.2.1, hn.1, Bool.not_true, Bool.or_self, Bool.false_eq_true, jarSet_nil]

theorem setCookie_plain (L : Lib) (name v : Str) (hn : LegalName name) (hlen : v.length ≤ 4096) :
    setCookie L [] name (.text v) [] = .ok [(name, quote v)] := by
  have hl : ¬ v.length > 4096 := by omega
  unfold setCookie
  simp only [List.isEmpty_nil, Bool.not_true, Bool.false_eq_true, if_false, bind, Except.bind, pure,
    Except.pure, hl, hn.2.1, hn.1, Bool.or_self, jarSet_nil]

/-- reading, with any non-empty secret, the request that returns a cookie signed under `key` -/
theorem getCookie_of_signed (L : Lib) (hb : B64Contract L) (name : Str) (value : CVal) (key secret : Bytes)
    (hn : LegalName name) (hs : secret ≠ [])
    (ht : TokAt L name (latin1Dec (cookieEncode L (name, value) key))) :
    getCookie L (clientHeader (emit [(name, quote (latin1Dec (cookieEncode L (name, value) key)))])) name secret =
      match cookieDecode L (cookieEncode L (name, value) key) secret with
      | (.error e, calls) => (.error e, calls)
      | (.ok none, calls) => (.ok none, calls)
      | (.ok (some (n, v)), calls) => (if n == name then .ok (some v) else .ok none, calls) := by
  have hch := encode_chars L hb (name, value) key
  have h256 : ∀ c ∈ latin1Dec (cookieEncode L (name, value) key), c.toNat < 256 :=
    fun c hc => by have := (hch c hc).2.1; omega
  rw [wire_single _ _ (wire_chars _ _ hn (quote_chars _ h256))]
  unfold getCookie
  unfold TokAt at ht
  rw [ht, unquote_quote _ h256]
  simp only [dictGet_single]
  have hse : secret.isEmpty = false := by simpa using hs
  have hne : (latin1Dec (cookieEncode L (name, value) key)).isEmpty = false := by
    rw [encode_text]; rfl
  simp only [hse, hne, Bool.not_false, Bool.and_self, if_true]
  rw [utf8Enc_latin1Dec_ascii _ (encode_ascii L hb (name, value) key)]
  generalize cookieDecode L (cookieEncode L (name, value) key) secret = res
  obtain ⟨r, calls⟩ := res
  cases r with
  | error e => rfl
  | ok o =>
    cases o with
    | none => rfl
    | some p => rfl

end Ombott.Cookies
