import OmbottModel.Props.C15
import OmbottModel.Lemmas.HelpersHeaders
import OmbottModel.Lemmas.HelpersForms
import OmbottModel.Lemmas.HelpersAuth

namespace Ombott.FormsDict
open Py Ombott.Cookies

/-- **table tie** (`CookieDict`): the accessors the class body defines, the attribute names normal lookup finds
(for which `__getattr__` is never asked: they shadow a cookie of the same name), the default `input_encoding` and that
it names the UTF-8 codec, the factories of `Request`, `None` for a missing attribute.  Adding, removing or renaming an
accessor re-opens this. -/
theorem cookiedict_tables_pinned :
    Gen.hpCookieDictOwn = ["__getattr__", "_decoded", "_fix", "decode", "getunicode", "input_encoding"] ∧
    Gen.hpCookieInputEncoding = "utf8" ∧ codecOf Gen.hpCookieInputEncoding.toList = some .utf8 ∧
    Gen.hpFactories = ["FormsDict", "CookieDict", "FormsDict", "CookieDict"] ∧ Gen.hpMissingAttr = ["None", "None"] ∧
    (∀ n ∈ ["_decoded", "_fix", "decode", "getunicode", "input_encoding", "get", "copy", "keys", "items", "values", "pop",
      "update", "clear", "__len__", "__class__", "__dict__"], n.toList ∈ cdAttrs) ∧
    (∀ n ∈ ["sid", "n", "a", "user_id", "session", "token", "getall", "__x__", "__"], n.toList ∉ cdAttrs) := by
  refine ⟨by decide, by decide, by decide +kernel, by decide, by decide, by decide +kernel, by decide +kernel⟩

theorem fix_error (s enc : Str) (x : HErr) (hx : fix s enc = .error x) :
    x = .unicodeError ∨ (codecOf enc = none ∧ x = .lookupError) := by
  unfold fix at hx
  split at hx
  · cases hx; exact Or.inl rfl
  · unfold decodeWith at hx
    split at hx
    · cases hx
    · cases hcod : codecOf enc with
      | none => rw [hcod] at hx; cases hx; exact Or.inr ⟨rfl, rfl⟩
      | some cd =>
        rw [hcod] at hx
        cases cd with
        | utf8 => simp only at hx; split at hx <;> cases hx; exact Or.inl rfl
        | latin1 => cases hx
        | ascii => simp only at hx; split at hx <;> cases hx; exact Or.inl rfl

theorem decodeGo_error (enc : Str) (items acc : List (Str × Str)) (x : HErr) (hx : decodeGo enc items acc = .error x) :
    x = .unicodeError ∨ (codecOf enc = none ∧ x = .lookupError) := by
  induction items generalizing acc with
  | nil => cases hx
  | cons p r ih =>
    obtain ⟨k, v⟩ := p
    unfold decodeGo at hx
    cases hv : fix v enc with
    | error y => rw [hv] at hx; cases hx; exact fix_error v enc _ hv
    | ok v' =>
      rw [hv] at hx
      cases hk : fix k enc with
      | error y => rw [hk] at hx; cases hx; exact fix_error k enc _ hk
      | ok k' => rw [hk] at hx; exact ih _ hx

theorem cookiedict_getunicode_ok (c : CD) (henc : (codecOf c.enc).isSome = true) (name : Str) (d : Option Str := none) :
    ∃ r, cdGetunicode c name d none = .ok r := by
  unfold cdGetunicode
  simp only [Option.getD_none]
  cases hg : cdGetitem c name with
  | error y =>
    have : y = .keyError := by
      unfold cdGetitem at hg; split at hg <;> cases hg; rfl
    subst this; exact ⟨_, rfl⟩
  | ok v =>
    simp only
    cases hf : fix v c.enc with
    | ok s => exact ⟨_, rfl⟩
    | error y =>
      rcases fix_error v c.enc y hf with rfl | h
      · exact ⟨_, rfl⟩
      · rw [h.1] at henc; cases henc

/-- **cookiedict_total**: on a `CookieDict` with a known `input_encoding` (every instance the framework creates:
`cookiedict_tables_pinned`) item access raises nothing but `KeyError`, attribute access nothing but `AttributeError`
(exactly for dunder names that normal lookup does not find), `get` and `getunicode` with the instance's encoding
never raise — an undecodable value is the default, `None` for attribute access — and `decode` raises nothing but
`UnicodeError` (a key or value that is not Latin-1, or not valid in the target codec), `TypeError` (a decoded copy asked
for another encoding NAME) and, for a codec name that does not exist, `LookupError`. -/
theorem cookiedict_total (c : CD) (henc : (codecOf c.enc).isSome = true) (name : Str) (d : Option Str) :
    (∀ x, cdGetitem c name = .error x → x = .keyError) ∧
    (∃ r, cdGetunicode c name d none = .ok r) ∧
    (∀ x, cdGetattr c name = .error x → x = .attributeError ∧ isDunder name = true ∧ ¬ name ∈ cdAttrs) ∧
    (∀ x, cdDecode c none = .error x → x = .unicodeError) ∧
    (∀ e x, cdDecode c (some e) = .error x → x = .unicodeError ∨ x = .typeError ∨ (codecOf e = none ∧ x = .lookupError)) := by
  have hknown : ∀ x, ¬ (codecOf c.enc = none ∧ x = HErr.lookupError) := by
    intro x h; rw [h.1] at henc; cases henc
  have hgu : ∃ r, cdGetunicode c name d none = .ok r := by
    unfold cdGetunicode
    simp only [Option.getD_none]
    cases hg : cdGetitem c name with
    | error y =>
      have : y = .keyError := by
        unfold cdGetitem at hg; split at hg <;> cases hg; rfl
      subst this; exact ⟨_, rfl⟩
    | ok v =>
      simp only
      cases hf : fix v c.enc with
      | ok s => exact ⟨_, rfl⟩
      | error y =>
        rcases fix_error v c.enc y hf with rfl | h
        · exact ⟨_, rfl⟩
        · exact absurd h (hknown y)
  refine ⟨?_, hgu, ?_, ?_, ?_⟩
  · intro x hx
    unfold cdGetitem at hx; split at hx <;> cases hx; rfl
  · intro x hx
    unfold cdGetattr at hx
    split at hx
    · cases hx
    · rename_i hna
      split at hx
      · rename_i hd
        cases hx
        exact ⟨rfl, hd, fun hm => hna (List.contains_iff_mem.mpr hm)⟩
      · obtain ⟨r, hr⟩ : ∃ r, cdGetunicode c name none none = .ok r := by
          have := cookiedict_getunicode_ok c henc name
          exact this
        rw [hr] at hx; cases hx
  · intro x hx
    unfold cdDecode at hx
    split at hx
    · cases hx
    · simp only [Option.getD_none] at hx
      cases hgo : decodeGo c.enc c.items [] with
      | ok items => rw [hgo] at hx; cases hx
      | error y =>
        rw [hgo] at hx; cases hx
        rcases decodeGo_error _ _ _ _ hgo with h | h
        · exact h
        · exact absurd h (hknown _)
  · intro e x hx
    unfold cdDecode at hx
    split at hx
    · simp only at hx
      split at hx
      · cases hx; exact Or.inr (Or.inl rfl)
      · cases hx
    · simp only [Option.getD_some] at hx
      cases hgo : decodeGo e c.items [] with
      | ok items => rw [hgo] at hx; cases hx
      | error y =>
        rw [hgo] at hx; cases hx
        rcases decodeGo_error _ _ _ _ hgo with h | h
        · exact Or.inl h
        · exact Or.inr (Or.inr h)

/-- **cookie_attr_roundtrip**: an unsigned ASCII cookie set on a response and returned by the client is read back
unchanged through every `CookieDict` accessor — item, `get`, `getunicode` (with any default), attribute access — for
every legal cookie name that is not shadowed by an attribute of the class and is not a dunder name.  (Composes
`setCookie` → `emit` → the client → the `http.cookies` tokeniser of `Props/C15.lean`'s `plain_roundtrip` with `_fix`.)
The value may be empty here (unlike `get_cookie`, the dictionary does show an empty cookie).
Residue, with model witnesses below: a value holding a character in U+0080..U+00FF reads as `None` through
`getunicode` / attribute access (it is sent octal-escaped, so its Latin-1 view is not UTF-8), the mirror image of the
recorded finding `C15:plain-cookie:char>=U+0100` (for which attribute access DOES return the original text). -/
theorem cookie_attr_roundtrip (name v : Str) (hn : LegalName name) (hv : ∀ c ∈ v, c.toNat < 128) (hlen : v.length ≤ 4096)
    (hattr : ¬ name ∈ cdAttrs) (hd : isDunder name = false) (pk : PkTable) (d : Option Str) :
    ∃ jar c, setCookie (concreteLib pk) [] name (.text v) [] = .ok jar ∧
      requestCookies (clientHeader (emit jar)) = .ok c ∧
      cdGetitem c name = .ok v ∧ cdGet c name d = some v ∧ cdGetunicode c name d none = .ok (some v) ∧
      cdGetattr c name = .ok (.value (some v)) := by
  have hv256 : ∀ c ∈ v, c.toNat < 256 := fun c hc => by have := hv c hc; omega
  refine ⟨_, cdOfPairs [(name, v)], setCookie_plain _ name v hn hlen, ?_, ?_⟩
  · rw [wire_single _ _ (wire_chars _ _ hn (quote_chars v hv256))]
    unfold requestCookies
    rw [parseCookies_single name v hn hv256, Cookies.unquote_quote v hv256]
    rfl
  · have hitems : (cdOfPairs [(name, v)]).items = [(name, v)] := rfl
    have hencd : (cdOfPairs [(name, v)]).enc = Gen.hpCookieInputEncoding.toList := rfl
    have hgi : cdGetitem (cdOfPairs [(name, v)]) name = .ok v := by
      unfold cdGetitem; rw [hitems, sget?_single]
    have hgu : cdGetunicode (cdOfPairs [(name, v)]) name d none = .ok (some v) := by
      unfold cdGetunicode
      simp only [Option.getD_none, hgi, hencd]
      rw [fix_ascii v _ hv (by decide +kernel)]
    refine ⟨hgi, ?_, hgu, ?_⟩
    · unfold cdGet; rw [hitems, sget?_single]
    · unfold cdGetattr
      have h1 : cdAttrs.contains name = false := by
        rw [Bool.eq_false_iff]; intro h; exact hattr (List.contains_iff_mem.mp h)
      have hgu' : cdGetunicode (cdOfPairs [(name, v)]) name none none = .ok (some v) := by
        unfold cdGetunicode
        simp only [Option.getD_none, hgi, hencd]
        rw [fix_ascii v _ hv (by decide +kernel)]
      simp only [h1, hd, Bool.false_eq_true, if_false, hgu']
      rfl

end Ombott.FormsDict

namespace Ombott.ReqProps
open Py

/-- **table tie** (`auth`, `remote_route`, `is_xhr`): the environ keys the accessors read, the scheme spellings `auth`
accepts on a valid payload (exactly the spellings of `basic` in any case), the token `is_xhr` compares with, and that
`is_ajax` is `is_xhr` -/
theorem reqprops_tables_pinned :
    Gen.hpAuthKeys = ["HTTP_AUTHORIZATION", "REMOTE_USER"] ∧ Gen.hpRouteKeys = ["HTTP_X_FORWARDED_FOR", "REMOTE_ADDR"] ∧
    Gen.hpXhrKeys = ["HTTP_X_REQUESTED_WITH"] ∧ Gen.hpXhrToken = "xmlhttprequest" ∧ Gen.hpAjaxIsXhr = true ∧
    (∀ p ∈ Gen.hpAuthSchemes, decide (lower p.1.toList = cs!"basic") = p.2) := by
  refine ⟨by decide, by decide, by decide, by decide, by decide, by decide +kernel⟩

/-- **auth_roundtrip**: for every user name without `:` and every password (any text, also empty, also with colons),
`auth` of `Authorization: <scheme><white space>b64(utf8(user:password))` — the scheme `basic` in any letter case,
any non-empty run of white space — is `(user, password)`, whatever `REMOTE_USER` holds. -/
theorem auth_roundtrip (scheme sep user password : Str) (remoteUser : Option Str)
    (hs : lower scheme = cs!"basic") (hsep : sep ≠ []) (hsw : ∀ c ∈ sep, isWsChar c = true) (hu : ':' ∉ user) :
    auth (some (basicHeader scheme sep user password)) remoteUser = .ok (some (user, some password)) := by
  unfold auth parseAuth
  simp only [Option.getD_some]
  rw [parseAuthTry_basic scheme sep user password hs hsep hsw hu]

/-- what `parse_auth` answers, in one expression: the first two white-space separated pieces, the scheme compared
case-insensitively, lenient base64, strict UTF-8, split at the first colon — `None` as soon as one step fails -/
def parseAuthSpec (header : Str) : Option (Str × Str) :=
  match splitWs1 header with
  | [method, data] =>
    if lower method = cs!"basic" then
      (Crypto.b64decodeLenient (utf8Enc data)).bind fun raw => (utf8Dec raw).bind fun text => splitFirst ':' text
    else none
  | _ => none

/-- **auth_malformed_none**: `auth` never raises; the header gives credentials exactly when every step of
`parseAuthSpec` succeeds, and otherwise the answer is `(REMOTE_USER, None)` for a non-empty `REMOTE_USER`, else `None`.
In particular `None` for: no second piece (`''`, `'Basic'`, `'Basic  '`), another scheme, a payload that ends
inside a base64 quad (`binascii.Error`), decoded bytes that are not UTF-8 (`UnicodeDecodeError`), no colon in the
decoded text — each of these is a `ValueError` caught inside `parse_auth`. -/
theorem auth_malformed_none (authorization remoteUser : Option Str) :
    (∀ header, parseAuth header = .ok (parseAuthSpec header)) ∧
    (∀ e : AErr, e.caught = true) ∧
    auth authorization remoteUser = .ok (match parseAuthSpec (authorization.getD []) with
      | some (u, p) => some (u, some p)
      | none => match remoteUser with
        | some (c :: r) => some (c :: r, none)
        | _ => none) := by
  have hp : ∀ header, parseAuth header = .ok (parseAuthSpec header) := by
    intro header
    unfold parseAuth parseAuthTry parseAuthSpec
    cases splitWs1 header with
    | nil => rfl
    | cons method t =>
      cases t with
      | nil => rfl
      | cons data t2 =>
        cases t2 with
        | cons _ _ => rfl
        | nil =>
          simp only
          by_cases hb : lower method = cs!"basic"
          · simp only [hb, if_true]
            cases h1 : Crypto.b64decodeLenient (utf8Enc data) with
            | none => rfl
            | some raw =>
              simp only [Option.bind_some]
              cases h2 : utf8Dec raw with
              | none => rfl
              | some text =>
                simp only [Option.bind_some]
                cases h3 : splitFirst ':' text with
                | none => rfl
                | some up => obtain ⟨u, p⟩ := up; rfl
          · simp only [hb, if_false]
  refine ⟨hp, fun e => by cases e <;> rfl, ?_⟩
  unfold auth
  rw [hp]
  cases parseAuthSpec (authorization.getD []) with
  | none =>
    cases remoteUser with
    | none => rfl
    | some r => cases r <;> rfl
  | some up => obtain ⟨u, p⟩ := up; rfl

/-- **remote_route_split**: `remote_route` of an `X-Forwarded-For` header made of addresses joined by a comma and any
white space (`', '.join(ips)` for `sp = " "`) is the list of those addresses, and `remote_addr` is the first (the
client), whatever `REMOTE_ADDR` holds; for every non-empty list of addresses free of commas and of surrounding white
space whose joined text is not empty.  Without the header (or with an empty one) the route is `[REMOTE_ADDR]`, or
`[]` when that is missing or empty too, and `remote_addr` is `REMOTE_ADDR` / `None`. -/
theorem remote_route_split (sp : Str) (hsp : ∀ c ∈ sp, isWsChar c = true ∧ c ≠ ',') (ips : List Str) (hne : ips ≠ [])
    (hip : ∀ ip ∈ ips, ',' ∉ ip ∧ strip ip = ip) (hj : joinCommaSp sp ips ≠ []) (remote : Option Str) :
    remoteRoute (some (joinCommaSp sp ips)) remote = ips ∧ remoteAddr (some (joinCommaSp sp ips)) remote = ips.head? ∧
    (∀ ra, ra ≠ [] → remoteRoute none (some ra) = [ra] ∧ remoteRoute (some []) (some ra) = [ra] ∧
      remoteAddr none (some ra) = some ra) ∧
    remoteRoute none none = [] ∧ remoteRoute none (some []) = [] ∧ remoteAddr none none = none := by
  have hr : remoteRoute (some (joinCommaSp sp ips)) remote = ips := by
    unfold remoteRoute
    obtain ⟨c, r, hcr⟩ := List.exists_cons_of_ne_nil hj
    rw [hcr]
    simp only
    rw [← hcr]
    have := route_pieces sp hsp ips hne hip [] (by intro c hc; cases hc)
    simpa using this
  refine ⟨hr, by unfold remoteAddr; rw [hr], ?_, rfl, rfl, rfl⟩
  intro ra hra
  obtain ⟨c, r, rfl⟩ := List.exists_cons_of_ne_nil hra
  exact ⟨rfl, rfl, rfl⟩

/-- the `remote_route` the cache-layer model (`Model/EnvCache.lean`) caches is this function of the two environ entries -/
theorem remote_route_agrees_with_envcache (e : Ombott.EnvCache.Env) :
    Ombott.EnvCache.remoteRouteOf e =
      .strs (remoteRoute (e.str? cs!"HTTP_X_FORWARDED_FOR") (e.str? cs!"REMOTE_ADDR")) := by
  unfold Ombott.EnvCache.remoteRouteOf remoteRoute Ombott.EnvCache.truthy
  cases h1 : e.str? cs!"HTTP_X_FORWARDED_FOR" with
  | none =>
    simp only
    cases h2 : e.str? cs!"REMOTE_ADDR" with
    | none => rfl
    | some r => cases r <;> rfl
  | some p =>
    cases p with
    | nil =>
      simp only [List.isEmpty_nil, if_true]
      cases h2 : e.str? cs!"REMOTE_ADDR" with
      | none => rfl
      | some r => cases r <;> rfl
    | cons c r => rfl

/-- **is_xhr_spec**: `is_xhr` is true exactly when `X-Requested-With`, ASCII-lower-cased, is `xmlhttprequest`; a missing
header is false; `is_ajax` is the same function -/
theorem is_xhr_spec (v : Option Str) :
    (isXhr v = true ↔ ∃ s, v = some s ∧ lower s = cs!"xmlhttprequest") ∧ isAjax v = isXhr v := by
  refine ⟨?_, rfl⟩
  have ht : xhrToken = cs!"xmlhttprequest" := by decide +kernel
  unfold isXhr
  rw [ht]
  cases v with
  | none => simp [lower]
  | some s => simp

end Ombott.ReqProps
