import OmbottModel.Lemmas.CookieTok
namespace Ombott.Cookies
open Py Py.Regex

theorem translateChar_length (c : Char) : 1 ≤ (translateChar c).length := by
  unfold translateChar
  split
  · simp
  · split
    · simp
    · split
      · simp
      · split <;> simp

theorem flatMap_translate_length (v : Str) : v.length ≤ (v.flatMap translateChar).length := by
  induction v with
  | nil => simp
  | cons c cs ih =>
    have hc := translateChar_length c
    simp only [List.flatMap_cons, List.length_append, List.length_cons]
    omega

/-- `_CookiePattern.match` on `name=<coded>`: the whole header is consumed, group `key` is the name
and group `val` the coded value -/
theorem matchAt_single (name v : Str) (hn : LegalName name) (hv : ∀ c ∈ v, c.toNat < 256) :
    matchAt cookiePattern (name ++ '=' :: quote v) =
      some (capSet (capSet [] 0 (name ++ '=' :: quote v, '=' :: quote v)) 1 (quote v, []), []) := by
  have hl := hn.1
  simp only [isLegalKey, Bool.and_eq_true, List.all_eq_true, Bool.not_eq_eq_eq_not, Bool.not_true] at hl
  obtain ⟨hne, hall⟩ := hl
  cases name with
  | nil => simp at hne
  | cons n0 nr =>
    unfold matchAt
    rw [cookiePattern_eq]
    have hqlen : v.length ≤ (quote v).length := by
      unfold quote
      split
      · exact Nat.le_refl _
      · have := flatMap_translate_length v
        simp only [List.length_cons, List.length_append]
        omega
    generalize hF : 4 * (n0 :: nr ++ '=' :: quote v).length + 200 = F
    have hFb : 3 * v.length + nr.length + 60 ≤ F := by
      rw [← hF]; simp only [List.length_append, List.length_cons]; omega
    obtain ⟨F', rfl⟩ : ∃ F', F = F' + 3 := ⟨F - 3, by omega⟩
    have hsp : isSpaceC n0 = false := (isLegal_tok (hall n0 (by simp))).2.2.2.2.2.2
    simp only [seqs]
    rw [m_seq, List.cons_append, ws_none _ _ _ _ (Or.inr ⟨n0, _, rfl, hsp⟩), m_seq, ← List.cons_append]
    apply key_success n0 nr ('=' :: quote v) hall [] _ _
    · intro x s c' hx
      exact rest_fail x s hx _ c' _
    · exact rest_success v hv _ _ _ rfl _ (by omega)
    · omega

theorem capGet_single (name coded : Str) :
    capGet (capSet (capSet [] 0 (name ++ '=' :: coded, '=' :: coded)) 1 (coded, [])) 0 = some name ∧
    capGet (capSet (capSet [] 0 (name ++ '=' :: coded, '=' :: coded)) 1 (coded, [])) 1 = some coded := by
  simp [capGet, capSet]

/-- **the tokeniser contract holds for the model's own `parseCookies`** -/
theorem parseCookies_single (name v : Str) (hn : LegalName name) (hv : ∀ c ∈ v, c.toNat < 256) :
    parseCookies (name ++ '=' :: quote v) = .ok [(name, unquote (quote v))] := by
  have hne : (name ++ '=' :: quote v).isEmpty = false := by simp
  have hd : (name.head? == some '$') = false := by
    have := hn.2.2
    cases name with
    | nil => rfl
    | cons a t =>
      simp only [List.head?_cons, ne_eq, Option.some.injEq] at this
      simpa using this
  unfold parseCookies
  simp only [scan, hne, Bool.false_eq_true, if_false, matchAt_single name v hn hv,
    (capGet_single name (quote v)).1, (capGet_single name (quote v)).2, Option.getD_some, hd, hn.2.1,
    Bool.not_false]
  have hscan : ∀ f acc, scan f [] true acc = some acc.reverse := by
    intro f acc; cases f <;> simp [scan]
  simp only [hscan, List.reverse_cons, List.reverse_nil, List.nil_append, applyItems, hn.2.1, hn.1,
    Bool.not_true, Bool.or_self, Bool.false_eq_true, if_false, jarSet_nil]

theorem tokContract_parseCookies (L : Lib) (h : L.load = parseCookies) : TokContract L := by
  intro name v hn hv
  unfold TokAt
  rw [h]
  exact parseCookies_single name v hn hv

end Ombott.Cookies
