import OmbottModel.Lemmas.Regex
namespace Py.Regex

variable {R : Type}

/-- with fuel ≥ `D`, `a` matches exactly the unit `u` at the head of any input and hands the rest
to its continuation, with no other way to match -/
def Exact (a : Re) (u : List Char) (D : Nat) : Prop :=
  u ≠ [] ∧ ∀ (R : Type) (g : Nat) (t : List Char) (c : Caps) (k : List Char → Caps → Option R),
    D ≤ g → m g a (u ++ t) c k = k t c

/-- greedy repetition over deterministic units: if the continuation succeeds after all of them
(and one more iteration is impossible), that is the answer -/
theorem star_greedy_units (a : Re) (D : Nat) (units : List (List Char)) (rest : List Char) (c : Caps)
    (k : List Char → Caps → Option R) (r : R)
    (hu : ∀ u ∈ units, Exact a u D)
    (hrest : ∀ g c' (k' : List Char → Caps → Option R), m g a rest c' k' = none)
    (hk : k rest c = some r) (f : Nat) (hf : units.length + D + 1 ≤ f) :
    m f (.star a true) (units.flatten ++ rest) c k = some r := by
  induction units generalizing f with
  | nil =>
    obtain ⟨f', rfl⟩ : ∃ f', f = f' + 1 := ⟨f - 1, by omega⟩
    simp only [List.flatten_nil, List.nil_append, m_star_greedy, hrest, orElse'_none, hk]
  | cons u us ih =>
    obtain ⟨f', rfl⟩ : ∃ f', f = f' + 1 := ⟨f - 1, by omega⟩
    simp only [List.length_cons] at hf
    obtain ⟨hne, hex⟩ := hu u (by simp)
    rw [List.flatten_cons, List.append_assoc, m_star_greedy, hex _ f' _ _ _ (by omega)]
    have hlen : (us.flatten ++ rest).length < (u ++ (us.flatten ++ rest)).length := by
      have : 0 < u.length := List.length_pos_iff.mpr hne
      simp only [List.length_append]; omega
    rw [if_pos hlen, ih (fun v hv => hu v (by simp [hv])) f' (by omega)]
    rfl

/-- lazy repetition over a character class: the continuation fails before every character of
`pre` and succeeds after the last -/
theorem star_lazy_cls (p : Char → Bool) (pre rest : List Char) (c : Caps)
    (k : List Char → Caps → Option R) (r : R) (hp : ∀ x ∈ pre, p x = true)
    (hfail : ∀ i, i < pre.length → k (pre.drop i ++ rest) c = none)
    (hk : k rest c = some r) (f : Nat) (hf : pre.length + 1 ≤ f) :
    m f (.star (.cls p) false) (pre ++ rest) c k = some r := by
  induction pre generalizing f with
  | nil =>
    obtain ⟨f', rfl⟩ : ∃ f', f = f' + 1 := ⟨f - 1, by omega⟩
    simp only [List.nil_append, m_star_lazy, hk, orElse'_some]
  | cons x xs ih =>
    obtain ⟨f', rfl⟩ : ∃ f', f = f' + 1 := ⟨f - 1, by omega⟩
    simp only [List.length_cons] at hf
    obtain ⟨f'', rfl⟩ : ∃ f'', f' = f'' + 1 := ⟨f' - 1, by omega⟩
    have h0 := hfail 0 (by simp)
    simp only [List.drop_zero] at h0
    rw [m_star_lazy, h0, orElse'_none, List.cons_append, m_cls_pos _ p x _ _ _ (hp x (by simp))]
    have hlen : (xs ++ rest).length < (x :: (xs ++ rest)).length := by simp
    rw [if_pos hlen]
    apply ih (fun y hy => hp y (by simp [hy]))
    · intro i hi
      have := hfail (i + 1) (by simp; omega)
      simpa using this
    · omega

theorem flatten_singletons (l : List Char) : (l.map fun x => [x]).flatten = l := by
  induction l with
  | nil => rfl
  | cons x xs ih => simp [ih]

/-- a single character of the class is an exact unit for `cls p` -/
theorem exact_cls (p : Char → Bool) (x : Char) (h : p x = true) : Exact (.cls p) [x] 1 := by
  refine ⟨by simp, ?_⟩
  intro R g t c k hg
  obtain ⟨g', rfl⟩ : ∃ g', g = g' + 1 := ⟨g - 1, by omega⟩
  exact m_cls_pos g' p x t c k h

/-- greedy `p*` takes all of `pre` when the next character is not in the class -/
theorem star_greedy_cls (p : Char → Bool) (pre rest : List Char) (c : Caps)
    (k : List Char → Caps → Option R) (r : R) (hp : ∀ x ∈ pre, p x = true)
    (hrest : rest = [] ∨ ∃ y t, rest = y :: t ∧ p y = false)
    (hk : k rest c = some r) (f : Nat) (hf : pre.length + 2 ≤ f) :
    m f (.star (.cls p) true) (pre ++ rest) c k = some r := by
  have := star_greedy_units (.cls p) 1 (pre.map fun x => [x]) rest c k r
    (by
      intro u hu
      simp only [List.mem_map] at hu
      obtain ⟨x, hx, rfl⟩ := hu
      exact exact_cls p x (hp x hx))
    (by
      intro g c' k'
      rcases hrest with rfl | ⟨y, t, rfl, hy⟩
      · exact m_cls_nil g p c' k'
      · exact m_cls_neg g p y t c' k' hy)
    hk f (by simp; omega)
  rwa [flatten_singletons] at this

end Py.Regex
