import OmbottModel.Lemmas.CookieTok
namespace Ombott.Cookies
open Py Py.Regex

variable {R : Type}

/-- what the tokeniser needs to know about a legal name character -/
def legalTok (c : Char) : Bool :=
  c != ',' && c != '"' && c != '=' && c != ';' && isValChar c && isKeyChar c && !isSpaceC c

theorem legalTok_all : legalChars.all legalTok = true := by decide

theorem isLegal_tok {c : Char} (h : isLegal c = true) :
    c ≠ ',' ∧ c ≠ '"' ∧ c ≠ '=' ∧ c ≠ ';' ∧ isValChar c = true ∧ isKeyChar c = true ∧ isSpaceC c = false := by
  unfold isLegal at h
  have := List.all_eq_true.mp legalTok_all c (by simpa using h)
  simp only [legalTok, Bool.and_eq_true, bne_iff_ne, ne_eq, Bool.not_eq_eq_eq_not, Bool.not_true] at this
  obtain ⟨⟨⟨⟨⟨⟨h1, h2⟩, h3⟩, h4⟩, h5⟩, h6⟩, h7⟩ := this
  exact ⟨h1, h2, h3, h4, h5, h6, h7⟩

theorem flatMap_units (v : Str) : (v.flatMap unitsOf).flatten = v.flatMap translateChar := by
  induction v with
  | nil => rfl
  | cons c cs ih => simp [List.flatMap_cons, ih, unitsOf_flatten]

theorem unitsOf_length (c : Char) : (unitsOf c).length ≤ 3 := by
  unfold unitsOf
  split
  · simp
  · split
    · simp
    · split
      · simp
      · split <;> simp

theorem flatMap_units_length (v : Str) : (v.flatMap unitsOf).length ≤ 3 * v.length := by
  induction v with
  | nil => simp
  | cons c cs ih =>
    have := unitsOf_length c
    simp only [List.flatMap_cons, List.length_append, List.length_cons]
    omega

theorem bodyAtom_quote (g : Nat) (c : Caps) (k : List Char → Caps → Option R) : m g bodyAtom ['"'] c k = none := by
  unfold bodyAtom chr
  cases g with
  | zero => rfl
  | succ g =>
    rw [m_alt, m_cls_neg _ (fun c => c != '\\' && c != '"') '"' [] _ _ (by decide), orElse'_none]
    cases g with
    | zero => rfl
    | succ g => rw [m_seq, m_cls_neg _ (fun x => x == '\\') '"' [] _ _ (by decide)]

/-- a quoted string as `_quote` prints it is matched whole by the first alternative of the value -/
theorem quoted_success (v : Str) (hv : ∀ c ∈ v, c.toNat < 256) (c : Caps)
    (K : List Char → Caps → Option R) (r : R) (hK : K [] c = some r) (g : Nat)
    (hg : 3 * v.length + 10 ≤ g) :
    m g quotedR ('"' :: (v.flatMap translateChar ++ ['"'])) c K = some r := by
  obtain ⟨g', rfl⟩ : ∃ g', g = g' + 3 := ⟨g - 3, by omega⟩
  simp only [quotedR, seqs, chr]
  rw [m_seq, m_cls_pos _ (fun x => x == '"') '"' _ _ _ (by decide), m_seq, ← flatMap_units]
  apply star_greedy_units bodyAtom 3 (v.flatMap unitsOf) ['"'] c _ r
  · intro u hu
    simp only [List.mem_flatMap] at hu
    obtain ⟨x, hx, hux⟩ := hu
    exact unitsOf_exact x (hv x hx) u hux
  · intro g c' k'; exact bodyAtom_quote g c' k'
  · rw [m_cls_pos _ (fun x => x == '"') '"' [] _ _ (by decide)]; exact hK
  · have := flatMap_units_length v; omega

theorem quotedR_fail (x : Char) (t : List Char) (hx : x ≠ '"') (g : Nat) (c : Caps)
    (k : List Char → Caps → Option R) : m g quotedR (x :: t) c k = none := by
  simp only [quotedR, seqs, chr]
  cases g with
  | zero => rfl
  | succ g => rw [m_seq, m_cls_neg _ (fun y => y == '"') x t _ _ (by simpa using hx)]

theorem expiresR_fail (s : Str) (hs : ∀ x ∈ s, x ≠ ',') (g : Nat) (c : Caps)
    (k : List Char → Caps → Option R) : m g expiresR s c k = none := by
  simp only [expiresR, seqs, chr]
  cases g with
  | zero => rfl
  | succ g =>
    rw [m_seq]
    apply m_none_of_cont_none
    intro s' c' hs'
    cases g with
    | zero => rfl
    | succ g =>
      rw [m_seq]
      cases s' with
      | nil => exact m_cls_nil _ _ _ _
      | cons y t' =>
        have hy : y ∈ s := hs'.subset (by simp)
        exact m_cls_neg _ (fun z => z == ',') y t' _ _ (by simpa using hs y hy)

/-- a word of legal characters is matched whole by the third alternative -/
theorem word_success (w : Str) (hw : ∀ x ∈ w, isLegal x = true) (hne : w ≠ []) (c : Caps)
    (K : List Char → Caps → Option R) (r : R) (hK : K [] c = some r) (g : Nat) (hg : w.length + 10 ≤ g) :
    m g valR w c K = some r := by
  obtain ⟨g', rfl⟩ : ∃ g', g = g' + 2 := ⟨g - 2, by omega⟩
  cases w with
  | nil => exact absurd rfl hne
  | cons x t =>
    unfold valR
    rw [m_alt, quotedR_fail x t (isLegal_tok (hw x (by simp))).2.1, orElse'_none, m_alt,
      expiresR_fail (x :: t) (fun y hy => (isLegal_tok (hw y hy)).1), orElse'_none]
    unfold wordR
    have := star_greedy_cls isValChar (x :: t) [] c K r (fun y hy => (isLegal_tok (hw y hy)).2.2.2.2.1)
      (Or.inl rfl) hK g' (by simp at hg ⊢; omega)
    simpa using this

end Ombott.Cookies
