import OmbottModel.Lemmas.Cookies
namespace Ombott.Cookies
open Py

/-- what matters about a legal cookie-name character -/
def legalFacts (c : Char) : Bool :=
  c.toNat ≤ 127 && c != '"' && c != '\\' && c != ';' && c != '=' && c != ' ' && c != '?' &&
  unescapedChars.contains c

theorem legal_all : legalChars.all legalFacts = true := by decide

theorem isLegal_facts {c : Char} (h : isLegal c = true) : legalFacts c = true := by
  unfold isLegal at h
  exact List.all_eq_true.mp legal_all c (by simpa using h)

/-- a character that `_quote` leaves as it is inside the quotes -/
def wireSafe (c : Char) : Bool := unescapedChars.contains c && c != '"' && c != '\\'

theorem translateChar_safe {c : Char} (h : wireSafe c = true) : translateChar c = [c] := by
  simp only [wireSafe, Bool.and_eq_true, bne_iff_ne, ne_eq] at h
  obtain ⟨⟨h1, h2⟩, h3⟩ := h
  have h2' : (c == '"') = false := by simpa using h2
  have h3' : (c == '\\') = false := by simpa using h3
  unfold translateChar
  rw [if_neg (by simp [h2']), if_neg (by simp [h3']), if_pos h1]

theorem flatMap_translate_safe (s : Str) (h : ∀ c ∈ s, wireSafe c = true) : s.flatMap translateChar = s := by
  induction s with
  | nil => rfl
  | cons c cs ih =>
    rw [List.flatMap_cons, translateChar_safe (h c (by simp)), ih (fun x hx => h x (by simp [hx]))]
    rfl

theorem unquote_quote (s : Str) (h : ∀ c ∈ s, c.toNat < 256) : unquote (quote s) = s := by
  unfold quote
  split
  · rename_i hl
    unfold unquote
    split
    · rfl
    · rename_i hlen
      cases s with
      | nil => simp at hlen
      | cons c cs =>
        simp only [isLegalKey, Bool.and_eq_true, List.all_eq_true] at hl
        have := isLegal_facts (hl.2 c (by simp))
        simp only [legalFacts, Bool.and_eq_true, bne_iff_ne, ne_eq] at this
        have hc : c ≠ '"' := this.1.1.1.1.1.1.2
        simp [hc]
  · unfold unquote
    have hlen : ¬ ('"' :: (s.flatMap translateChar ++ ['"'])).length < 2 := by simp
    rw [if_neg hlen]
    have hh : ('"' :: (s.flatMap translateChar ++ ['"'])).head? = some '"' := rfl
    have hl : ('"' :: (s.flatMap translateChar ++ ['"'])).getLast? = some '"' := by
      rw [List.getLast?_cons]; simp
    simp only [hh, hl, bne_self_eq_false, Bool.or_self, Bool.false_eq_true, if_false]
    simp only [List.drop_succ_cons, List.drop_zero, List.dropLast_concat]
    exact unquoteBody_flatMap s h

end Ombott.Cookies
