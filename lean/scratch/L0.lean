import OmbottModel.Model.Cookies
namespace Ombott.Cookies
open Py
theorem lscmp_cons (x y : UInt8) (a b : Bytes) : lscmp (x :: a) (y :: b) = ((x == y) && lscmp a b) := by
  by_cases h : x = y
  · subst h; simp [lscmp]
  · have : (x == y) = false := by simpa using h
    simp [lscmp, this]
    trace_state
    sorry
end Ombott.Cookies
