import OmbottModel.Model.Cookies
import OmbottModel.Lemmas.Text
namespace Ombott.Cookies
open Py

theorem lscmp_nil_left (b : Bytes) : lscmp [] b = b.isEmpty := by
  cases b <;> simp [lscmp]

theorem lscmp_nil_right (a : Bytes) : lscmp a [] = a.isEmpty := by
  cases a <;> simp [lscmp]

theorem lscmp_cons (x y : UInt8) (a b : Bytes) : lscmp (x :: a) (y :: b) = ((x == y) && lscmp a b) := by
  by_cases h : x = y
  · subst h; simp [lscmp]
  · have : (x == y) = false := by simpa using h
    simp [lscmp, this]
    intro hxy; exact absurd hxy h

theorem lscmp_iff_eq' (a b : Bytes) : lscmp a b = true ↔ a = b := by
  induction a generalizing b with
  | nil => cases b <;> simp [lscmp_nil_left]
  | cons x xs ih =>
    cases b with
    | nil => simp [lscmp_nil_right]
    | cons y ys => rw [lscmp_cons]; simp [ih]

theorem splitFirst_spec {α} [BEq α] [LawfulBEq α] (sep : α) (l a b : List α)
    (h : splitFirst sep l = some (a, b)) : l = a ++ sep :: b ∧ sep ∉ a := by
  induction l generalizing a with
  | nil => simp [splitFirst] at h
  | cons c cs ih =>
    unfold splitFirst at h
    split at h
    · rename_i hc
      simp only [Option.some.injEq, Prod.mk.injEq] at h
      obtain ⟨rfl, rfl⟩ := h
      simp only [beq_iff_eq] at hc
      subst hc
      simp
    · rename_i hc
      simp only [Option.map_eq_some_iff] at h
      obtain ⟨⟨a', b'⟩, hs, heq⟩ := h
      simp only [Prod.mk.injEq] at heq
      obtain ⟨rfl, rfl⟩ := heq
      obtain ⟨h1, h2⟩ := ih a' hs
      refine ⟨by rw [h1]; simp, ?_⟩
      simp only [List.mem_cons, not_or]
      exact ⟨fun hh => hc (by simp [hh]), h2⟩

theorem splitFirst_append {α} [BEq α] [LawfulBEq α] (sep : α) (a b : List α) (h : sep ∉ a) :
    splitFirst sep (a ++ sep :: b) = some (a, b) := by
  induction a with
  | nil => simp [splitFirst]
  | cons c cs ih =>
    simp only [List.mem_cons, not_or] at h
    have hc : (c == sep) = false := by simpa using Ne.symm h.1
    simp [splitFirst, hc, ih h.2]

end Ombott.Cookies
