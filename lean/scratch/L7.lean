import OmbottModel.Lemmas.Cookies
namespace Ombott.Cookies
open Py

/-! ### ASCII on the wire -/

theorem utf8Enc_latin1Dec_ascii (b : Bytes) (h : ∀ x ∈ b, x.toNat ≤ 127) : utf8Enc (latin1Dec b) = b := by
  induction b with
  | nil => rfl
  | cons x xs ih =>
    have hx : x.toNat ≤ 127 := h x (by simp)
    have h256 : x.toNat < 256 := by omega
    have hc : (Char.ofNat x.toNat).toNat ≤ 127 := by rw [Char.toNat_ofNat_lt256 _ h256]; exact hx
    simp only [latin1Dec, List.map_cons, utf8Enc, List.flatMap_cons] at *
    rw [utf8EncodeChar_ascii _ hc, Char.toNat_ofNat_lt256 _ h256, ih (fun y hy => h y (by simp [hy]))]
    simp

theorem utf8Dec_ascii (b : Bytes) (h : ∀ x ∈ b, x.toNat ≤ 127) : utf8Dec b = some (latin1Dec b) := by
  have := utf8Dec_utf8Enc (latin1Dec b)
  rwa [utf8Enc_latin1Dec_ascii b h] at this

theorem b64Byte_facts {x : UInt8} (h : isB64Byte x = true) :
    wireSafe (Char.ofNat x.toNat) = true ∧ x.toNat ≤ 127 ∧ x.toNat ≠ 59 ∧ x.toNat ≠ 63 ∧ x.toNat ≠ 33 := by
  have := b64_facts_all x.toNat x.toNat_lt
  unfold isB64Byte at h
  simp only [b64Facts, h, Bool.not_true, Bool.false_or, Bool.and_eq_true, decide_eq_true_eq,
    bne_iff_ne, ne_eq] at this
  obtain ⟨⟨⟨⟨h1, h2⟩, h3⟩, h4⟩, h5⟩ := this
  exact ⟨h1, h2, h3, h4, h5⟩

/-- every byte of a signed cookie is `!`, `?` or of the base64 alphabet -/
theorem mem_encode (L : Lib) (hb : B64Contract L) (x : Str × CVal) (key : Bytes) (c : UInt8)
    (hc : c ∈ cookieEncode L x key) : c = 33 ∨ c = 63 ∨ isB64Byte c = true := by
  simp only [cookieEncode, List.mem_append, List.mem_cons, List.not_mem_nil, or_false] at hc
  rcases hc with ((rfl | h) | rfl) | h
  · exact Or.inl rfl
  · exact Or.inr (Or.inr (hb.alphabet _ c h))
  · exact Or.inr (Or.inl rfl)
  · exact Or.inr (Or.inr (hb.alphabet _ c h))

theorem encode_ascii (L : Lib) (hb : B64Contract L) (x : Str × CVal) (key : Bytes) :
    ∀ c ∈ cookieEncode L x key, c.toNat ≤ 127 := by
  intro c hc
  rcases mem_encode L hb x key c hc with rfl | rfl | h
  · decide
  · decide
  · exact (b64Byte_facts h).2.1

/-- the text of a signed cookie: safe inside quotes, ASCII, no `;` -/
theorem encode_chars (L : Lib) (hb : B64Contract L) (x : Str × CVal) (key : Bytes) :
    ∀ c ∈ latin1Dec (cookieEncode L x key), wireSafe c = true ∧ c.toNat ≤ 127 ∧ c ≠ ';' := by
  intro c hc
  simp only [latin1Dec, List.mem_map] at hc
  obtain ⟨b, hb', rfl⟩ := hc
  rcases mem_encode L hb x key b hb' with rfl | rfl | h
  · decide
  · decide
  · obtain ⟨h1, h2, h3, _, _⟩ := b64Byte_facts h
    refine ⟨h1, ?_, ?_⟩
    · rw [Char.toNat_ofNat_lt256 _ b.toNat_lt]; exact h2
    · intro he
      have := congrArg Char.toNat he
      rw [Char.toNat_ofNat_lt256 _ b.toNat_lt] at this
      exact h3 this

theorem encode_text (L : Lib) (x : Str × CVal) (key : Bytes) :
    latin1Dec (cookieEncode L x key) =
      '!' :: (latin1Dec (L.b64 (L.hmac key (L.b64 (L.pickle x)))) ++ '?' :: latin1Dec (L.b64 (L.pickle x))) := by
  simp [cookieEncode, latin1Dec]

/-- a signed cookie is printed between double quotes with nothing escaped -/
theorem quote_signed (L : Lib) (hb : B64Contract L) (x : Str × CVal) (key : Bytes) :
    quote (latin1Dec (cookieEncode L x key)) = '"' :: (latin1Dec (cookieEncode L x key) ++ ['"']) := by
  have hnl : isLegalKey (latin1Dec (cookieEncode L x key)) = false := by
    rw [encode_text]
    simp only [isLegalKey, Bool.and_eq_false_iff]
    right
    rw [Bool.eq_false_iff]
    intro hall
    rw [List.all_eq_true] at hall
    have := hall '?' (by simp)
    revert this; decide
  unfold quote
  rw [hnl]
  simp only [Bool.false_eq_true, if_false]
  rw [flatMap_translate_safe _ (fun c hc => (encode_chars L hb x key c hc).1)]

theorem legalName_chars {n : Str} (h : LegalName n) : ∀ c ∈ n, c.toNat ≤ 127 ∧ c ≠ ';' := by
  intro c hc
  have := h.1
  simp only [isLegalKey, Bool.and_eq_true, List.all_eq_true] at this
  have hf := isLegal_facts (this.2 c hc)
  simp only [legalFacts, Bool.and_eq_true, decide_eq_true_eq, bne_iff_ne, ne_eq] at hf
  exact ⟨hf.1.1.1.1.1.1.1, hf.1.1.1.1.2⟩

theorem takeWhile_all {α} (p : α → Bool) (l : List α) (h : ∀ x ∈ l, p x = true) : l.takeWhile p = l := by
  induction l with
  | nil => rfl
  | cons x xs ih => simp [List.takeWhile, h x (by simp), ih (fun y hy => h y (by simp [hy]))]

theorem clientHeader_single (h : Str) (hs : ';' ∉ h) : clientHeader [h] = h := by
  unfold clientHeader
  simp only [List.map_cons, List.map_nil]
  rw [takeWhile_all _ _ (fun x hx => by simp; intro he; subst he; exact hs hx)]
  simp [List.intercalate]

theorem dictGet_single (k v : Str) : dictGet [(k, v)] k = some v := by simp [dictGet]

end Ombott.Cookies
