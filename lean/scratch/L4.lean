import OmbottModel.Lemmas.Cookies
namespace Ombott.Cookies
open Py

theorem octDigit_toNat (k : Nat) (hk : k ≤ 7) : (octDigit k).toNat = 48 + k := by
  unfold octDigit
  exact Char.toNat_ofNat_lt256 _ (by omega)

theorem isOct_octDigit (k hi : Nat) (hk : k ≤ hi) (hh : hi ≤ 7) : isOct (octDigit k) hi = true := by
  unfold isOct
  rw [octDigit_toNat k (by omega)]
  simp; omega

theorem unquoteBody_translate (c : Char) (hc : c.toNat < 256) (rest : Str) :
    unquoteBody (translateChar c ++ rest) = c :: unquoteBody rest := by
  unfold translateChar
  split
  · rename_i h
    simp only [beq_iff_eq] at h; subst h
    exact unquoteBody_esc '"' rest (by decide) (by decide)
  · split
    · rename_i _ h
      simp only [beq_iff_eq] at h; subst h
      exact unquoteBody_esc '\\' rest (by decide) (by decide)
    · rename_i _ hbs
      split
      · exact unquoteBody_plain c rest (by simpa using hbs)
      · have h2 : c.toNat / 64 ≤ 3 := by omega
        have h1 : c.toNat / 8 % 8 ≤ 7 := by omega
        have h0 : c.toNat % 8 ≤ 7 := by omega
        simp only [List.cons_append, List.nil_append]
        rw [unquoteBody_oct _ _ _ rest (isOct_octDigit _ 3 h2 (by omega)) (isOct_octDigit _ 7 h1 (by omega))
          (isOct_octDigit _ 7 h0 (by omega))]
        congr 1
        unfold octVal
        rw [octDigit_toNat _ (by omega), octDigit_toNat _ h1, octDigit_toNat _ h0]
        have : (48 + c.toNat / 64 - 48) * 64 + (48 + c.toNat / 8 % 8 - 48) * 8 + (48 + c.toNat % 8 - 48) = c.toNat := by
          omega
        rw [this]
        exact Char.ofNat_toNat c

/-- `_unquote` undoes `str.translate(_Translator)` on Latin-1 text -/
theorem unquoteBody_flatMap (s : Str) (h : ∀ c ∈ s, c.toNat < 256) :
    unquoteBody (s.flatMap translateChar) = s := by
  induction s with
  | nil => rfl
  | cons c cs ih =>
    rw [List.flatMap_cons, unquoteBody_translate c (h c (by simp)), ih (fun x hx => h x (by simp [hx]))]

theorem legal_props : legalChars.all (fun c => c.toNat ≤ 127 && c != '"' && c != '\\' && c != ';' && c != '=' &&
    c != '$' || c == '$') = true := by decide

end Ombott.Cookies
