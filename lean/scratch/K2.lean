import OmbottModel.Lemmas.CookieTok
namespace Ombott.Cookies
open Py Py.Regex

variable {R : Type}

theorem exact_single (x : Char) (h : (x != '\\' && x != '"') = true) : Exact bodyAtom [x] 3 := by
  refine ⟨by simp, ?_⟩
  intro R g t c k hg
  obtain ⟨g', rfl⟩ : ∃ g', g = g' + 3 := ⟨g - 3, by omega⟩
  have hx : x ≠ '\\' := by
    simp only [Bool.and_eq_true, bne_iff_ne, ne_eq] at h; exact h.1
  unfold bodyAtom chr
  rw [List.singleton_append, m_alt, m_cls_pos _ _ x t c k h, m_seq,
    m_cls_neg _ _ x t _ _ (by simpa using hx)]
  cases k t c <;> rfl

theorem exact_pair (y : Char) (h : y ≠ '\n') : Exact bodyAtom ['\\', y] 3 := by
  refine ⟨by simp, ?_⟩
  intro R g t c k hg
  obtain ⟨g', rfl⟩ : ∃ g', g = g' + 3 := ⟨g - 3, by omega⟩
  unfold bodyAtom chr
  show m (g' + 3) _ ('\\' :: y :: t) c k = k t c
  rw [m_alt, m_cls_neg _ (fun c => c != '\\' && c != '"') '\\' _ _ _ (by decide), orElse'_none, m_seq,
    m_cls_pos _ (fun x => x == '\\') '\\' _ _ _ (by decide),
    m_cls_pos _ (fun x => x != '\n') y t c k (by simpa using h)]

/-- the units (one iteration of the quoted-string loop each) `str.translate` produces for a character -/
def unitsOf (c : Char) : List (List Char) :=
  if c == '"' then [['\\', '"']]
  else if c == '\\' then [['\\', '\\']]
  else if unescapedChars.contains c then [[c]]
  else if c.toNat < 256 then
    [['\\', octDigit (c.toNat / 64)], [octDigit (c.toNat / 8 % 8)], [octDigit (c.toNat % 8)]]
  else [[c]]

theorem unitsOf_flatten (c : Char) : (unitsOf c).flatten = translateChar c := by
  unfold unitsOf translateChar
  split
  · rfl
  · split
    · rfl
    · split
      · rfl
      · split <;> rfl

theorem octDigit_ok (k : Nat) (hk : k ≤ 7) :
    octDigit k ≠ '\n' ∧ (octDigit k != '\\' && octDigit k != '"') = true := by
  have h := octDigit_toNat k hk
  have ne : ∀ (d : Char), d.toNat < 48 ∨ 55 < d.toNat → octDigit k ≠ d := by
    intro d hd he; rw [he] at h; omega
  refine ⟨ne _ (by decide), ?_⟩
  simp only [Bool.and_eq_true, bne_iff_ne, ne_eq]
  exact ⟨ne _ (by decide), ne _ (by decide)⟩

theorem unescaped_not_special : unescapedChars.all (fun c => c != '\\' && c != '"') = true := by decide

theorem unitsOf_exact (c : Char) (hc : c.toNat < 256) : ∀ u ∈ unitsOf c, Exact bodyAtom u 3 := by
  intro u hu
  unfold unitsOf at hu
  split at hu
  · simp only [List.mem_singleton] at hu; subst hu; exact exact_pair '"' (by decide)
  · split at hu
    · simp only [List.mem_singleton] at hu; subst hu; exact exact_pair '\\' (by decide)
    · split at hu
      · rename_i hun
        simp only [List.mem_singleton] at hu; subst hu
        exact exact_single c (List.all_eq_true.mp unescaped_not_special c (by simpa using hun))
      · simp only [List.mem_cons, List.not_mem_nil, or_false] at hu
        rcases hu with rfl | rfl | rfl
        · exact exact_pair _ (octDigit_ok _ (by omega)).1
        · exact exact_single _ (octDigit_ok _ (by omega)).2
        · exact exact_single _ (octDigit_ok _ (by omega)).2

end Ombott.Cookies
