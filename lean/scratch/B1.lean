import OmbottModel.Lemmas.Cookies
import OmbottModel.Py.Crypto
namespace Py.Crypto
open Py Ombott.Cookies

set_option maxRecDepth 100000 in
theorem b64Char_facts : ∀ k, k < 64 → (isB64Byte (b64Char k) = true ∧ b64Val (b64Char k) = some k ∧ b64Char k ≠ 61) := by
  decide

#check @b64decode.eq_1
#check @b64decode.eq_2
#check @b64decode.eq_3
#check @b64decode.eq_4
#check @b64decode.eq_5
#check @b64encode.induct
end Py.Crypto
