import OmbottModel.Lemmas.HelpersAuth
open Py Ombott.ReqProps
example : auth (some cs!"Basic") none = .ok none := by decide +kernel
example : auth none none = .ok none := by decide +kernel
example : auth (some cs!"Basic QUJD") (some cs!"ruser") = .ok (some (cs!"ruser", none)) := by decide +kernel
example : auth (some cs!"Basic") none = .ok none ∧ auth (some cs!"Digest dTpw") none = .ok none := by decide +kernel
