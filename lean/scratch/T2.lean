import OmbottModel.Py.Text
open Py

theorem utf8Enc_toByteArray (s : Str) : (utf8Enc s).toByteArray = s.utf8Encode := rfl

theorem utf8Dec_utf8Enc (s : Str) : utf8Dec (utf8Enc s) = some s := by
  unfold utf8Dec
  have h : ByteArray.mk (utf8Enc s).toArray = s.utf8Encode := by
    rw [← utf8Enc_toByteArray]
    apply ByteArray.ext
    simp [List.data_toByteArray]
  rw [h]
  have : String.fromUTF8? s.utf8Encode = some (String.ofList s) := by
    unfold String.fromUTF8?
    rw [dif_pos ByteArray.isValidUTF8_utf8Encode]
    congr 1
    rw [← String.toByteArray_inj]
    simp [String.fromUTF8]
  simp [this]
