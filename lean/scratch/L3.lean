import OmbottModel.Lemmas.Cookies
namespace Ombott.Cookies
open Py

theorem unquoteGo_fuel (f g : Nat) (s : Str) (hf : s.length ≤ f) (hg : s.length ≤ g) :
    unquoteGo f s = unquoteGo g s := by
  induction f generalizing g s with
  | zero =>
    have : s = [] := List.length_eq_zero_iff.mp (by omega)
    subst this
    cases g <;> rfl
  | succ f ih =>
    cases g with
    | zero =>
      have : s = [] := List.length_eq_zero_iff.mp (by omega)
      subst this; rfl
    | succ g =>
      cases s with
      | nil => rfl
      | cons x t =>
        simp only [List.length_cons] at hf hg
        unfold unquoteGo
        split
        · rw [ih g t (by omega) (by omega)]
        · cases t with
          | nil => rfl
          | cons a t1 =>
            simp only [List.length_cons] at hf hg
            simp only
            split
            · rw [ih g (a :: t1) (by simp; omega) (by simp; omega)]
            · cases t1 with
              | nil => simp only; rw [ih g [] (by simp) (by simp)]
              | cons b t2 =>
                cases t2 with
                | nil => simp only; rw [ih g [b] (by simp at *; omega) (by simp at *; omega)]
                | cons c t3 =>
                  simp only [List.length_cons] at hf hg
                  simp only
                  split
                  · rw [ih g t3 (by omega) (by omega)]
                  · rw [ih g (b :: c :: t3) (by simp; omega) (by simp; omega)]

theorem unquoteGo_body (f : Nat) (s : Str) (hf : s.length ≤ f) : unquoteGo f s = unquoteBody s :=
  unquoteGo_fuel f s.length s hf (Nat.le_refl _)

theorem unquoteBody_nil : unquoteBody [] = [] := rfl

/-- a character other than the backslash is copied -/
theorem unquoteBody_plain (x : Char) (t : Str) (hx : x ≠ '\\') : unquoteBody (x :: t) = x :: unquoteBody t := by
  have : (x != '\\') = true := by simpa using hx
  unfold unquoteBody
  simp only [List.length_cons, unquoteGo, this, if_true]

/-- backslash + a character that does not start an octal triple: the character is kept -/
theorem unquoteBody_esc (a : Char) (t : Str) (hn : a ≠ '\n') (ho : isOct a 3 = false) :
    unquoteBody ('\\' :: a :: t) = a :: unquoteBody t := by
  have h1 : ('\\' != '\\') = false := by decide
  have h2 : (a == '\n') = false := by simpa using hn
  unfold unquoteBody
  simp only [List.length_cons, unquoteGo, h1, h2, Bool.false_eq_true, if_false]
  cases t with
  | nil => simp [unquoteGo]
  | cons b t2 =>
    cases t2 with
    | nil => simp only; rw [unquoteGo_body _ _ (by simp)]; rfl
    | cons c t3 =>
      simp only [ho, Bool.false_and, Bool.false_eq_true, if_false]
      rw [unquoteGo_body _ _ (by simp)]; rfl

/-- backslash + octal triple -/
theorem unquoteBody_oct (a b c : Char) (t : Str) (ha : isOct a 3 = true) (hb : isOct b 7 = true)
    (hc : isOct c 7 = true) : unquoteBody ('\\' :: a :: b :: c :: t) = octVal a b c :: unquoteBody t := by
  have h1 : ('\\' != '\\') = false := by decide
  have h2 : (a == '\n') = false := by
    have : a ≠ '\n' := by
      intro h; subst h; revert ha; decide
    simpa using this
  unfold unquoteBody
  simp only [List.length_cons, unquoteGo, h1, h2, ha, hb, hc, Bool.and_self, Bool.false_eq_true, if_false, if_true]
  rw [unquoteGo_body _ _ (by omega)]; rfl

end Ombott.Cookies
