import OmbottModel.Props.C15
import OmbottModel.Lemmas.HelpersHeaders
import OmbottModel.Lemmas.HelpersForms
import OmbottModel.Lemmas.HelpersAuth

/-! ## the request helper classes behind `Request.headers`, `.cookies`, `.auth`, `.remote_route`, `.is_xhr`

`WSGIHeaderDict`, `CookieDict` (`ombott/request_pkg/helpers.py`) and the small accessors of `props_mixin.py` carry
the header-borne data C15 is about (the `Cookie` header itself, credentials, forwarded addresses) from the environ to
the handler.  The functions are the ones the driver runs (`Drv/Helpers.lean`); the tables (`Gen/Helpers.lean`, names
`hp…`) are regenerated from the live classes on every run. -/
namespace Ombott.WsgiHeaders
open Py

/-- **table tie**: the keys shown without `HTTP_`, the prefix, and `_ekey` / `__iter__` of the live class on the probe
points are what the model computes (so a change of `cgikeys`, of the prefix or of either mapping re-opens this) -/
theorem header_tables_pinned :
    Gen.hpCgikeys = ["CONTENT_LENGTH", "CONTENT_TYPE"] ∧ Gen.hpHttpPrefix.toList = httpPrefix ∧
    (∀ p ∈ Gen.hpEkeyProbes, ekey p.1.toList = p.2.toList) ∧
    (∀ p ∈ Gen.hpIterProbes, iterName p.1.toList = p.2.map String.toList) := by
  refine ⟨by decide, by decide +kernel, by decide +kernel, by decide +kernel⟩

/-- **ekey_title_roundtrip**: for every header name made of letters, digits and hyphens, the name iteration lists
for the environ key `_ekey name` is `name.title()`, and `_ekey` of that listed name is the same key: the view neither
loses nor invents a header, whatever the case the handler spells the name in. -/
theorem ekey_title_roundtrip (name : Str) (hn : ∀ c ∈ name, isNameChar c = true) :
    iterName (ekey name) = some (title name) ∧ ekey (title name) = ekey name := by
  have hd : dash name = name := dash_of_no_under name (by
    intro c hc e
    subst e
    have := hn _ hc
    revert this; decide)
  have h1 := iterName_ekey name
  have h2 := ekey_title_dash name
  rw [hd] at h1 h2
  exact ⟨h1, h2⟩

/-- the CGI ambiguity, stated: a name spelled with underscores reads the same environ entry as the one spelled with
hyphens (`X_A` and `X-A` are one header to the view), and iteration lists it with hyphens — for every name -/
theorem ekey_underscore_same_key (name : Str) :
    ekey (undash name) = ekey name ∧ ekey (dash name) = ekey name ∧
    iterName (ekey name) = some (title (dash name)) ∧ ekey (title (dash name)) = ekey name := by
  refine ⟨ekey_congr _ _ ?_, ekey_congr _ _ ?_, iterName_ekey name, ekey_title_dash name⟩
  · simp only [undash_eq, List.map_map]
    congr 1
    apply List.map_congr_left
    intro c _
    simp only [Function.comp, unC]
    split <;> simp_all
  · rw [undash_dash]

/-- **headers_view_exact**: the mapping the view shows is exactly the environ's `HTTP_*` entries plus the CGI keys:
(1) `keys()` lists one name per such entry, in environ order, and nothing else (`len` counts them);
(2) a lookup that succeeds reads such an entry, decoded as Latin-1 when it is bytes, and a lookup fails only with `KeyError`;
(3) for an environ whose keys are distinct (a `dict`) every header entry written the way a WSGI server writes it
    (`canonKey`) is read back under the name listed for it, so
(4) `items()` of an environ all of whose header keys are canonical is the list of those entries. -/
theorem headers_view_exact (e : Env) :
    (keys e = (e.filter fun p => isHeaderKey p.1).map (fun p => nameOf p.1) ∧
      len e = (e.filter fun p => isHeaderKey p.1).length) ∧
    (∀ n s, getitem e n = .ok s ↔ ∃ v, (ekey n, v) ∈ e ∧ e.get? (ekey n) = some v ∧ isHeaderKey (ekey n) = true ∧ s = touni v) ∧
    (∀ n x, getitem e n = .error x → x = .keyError ∧ contains e n = false) ∧
    ((e.map (·.1)).Nodup → ∀ k v, (k, v) ∈ e → canonKey k = true →
      raw e (nameOf k) = some v ∧ getitem e (nameOf k) = .ok (touni v) ∧ contains e (nameOf k) = true) ∧
    ((e.map (·.1)).Nodup → (∀ p ∈ e, isHeaderKey p.1 = true → canonKey p.1 = true) →
      items e = .ok ((e.filter fun p => isHeaderKey p.1).map fun p => (nameOf p.1, touni p.2))) := by
  have hcanon : (e.map (·.1)).Nodup → ∀ k v, (k, v) ∈ e → canonKey k = true → e.get? (ekey (nameOf k)) = some v := by
    intro hn k v hm hc
    rw [ekey_nameOf k hc]
    exact get?_of_mem e k v hn hm
  refine ⟨⟨keys_eq e, by unfold len; rw [keys_eq, List.length_map]⟩, ?_, ?_, ?_, ?_⟩
  · intro n s
    rw [getitem_ok_iff]
    constructor
    · rintro ⟨v, hv, hs⟩
      exact ⟨v, get?_mem e _ v hv, hv, isHeaderKey_ekey n, hs⟩
    · rintro ⟨v, _, hv, _, hs⟩
      exact ⟨v, hv, hs⟩
  · intro n x hx
    refine ⟨getitem_error e n x hx, ?_⟩
    unfold getitem at hx
    unfold contains
    cases hg : e.get? (ekey n) with
    | none => rfl
    | some v => rw [hg] at hx; cases hx
  · intro hn k v hm hc
    have := hcanon hn k v hm hc
    refine ⟨this, ?_, ?_⟩
    · unfold getitem; rw [this]
    · unfold contains; rw [this]; rfl
  · intro hn hall
    unfold items
    rw [keys_eq, List.mapM_map]
    apply mapM_ok
    intro p hp
    have hp' := List.mem_filter.mp hp
    have hc := hall p hp'.1 (by simpa using hp'.2)
    simp only [Function.comp, getitem]
    rw [hcanon hn p.1 p.2 hp'.1 hc]
    rfl

/-- the outcome of a mutator call as the table spells it -/
def outcomeName : Except Err Out → String
  | .ok _ => "ok"
  | .error e => e.name

/-- the probe calls of `harness/tables/helpers.py` on the environ `{HTTP_X_A: '1', CONTENT_TYPE: 't', REQUEST_METHOD: 'GET'}` -/
def probeEnv : Env := [(cs!"HTTP_X_A", .str cs!"1"), (cs!"CONTENT_TYPE", .str cs!"t"), (cs!"REQUEST_METHOD", .str cs!"GET")]
def probeOp : String → Option Op
  | "setitem-new" => some (.setitem cs!"X-B" cs!"v") | "setitem-old" => some (.setitem cs!"X-A" cs!"v")
  | "delitem-old" => some (.delitem cs!"X-A") | "delitem-new" => some (.delitem cs!"X-B")
  | "pop-old" => some (.pop cs!"X-A" none) | "pop-new" => some (.pop cs!"X-B" none)
  | "pop-new-default" => some (.pop cs!"X-B" (some [])) | "popitem" => some .popitem | "clear" => some .clear
  | "update" => some (.update [(cs!"X-B", cs!"v")]) | "update-empty" => some (.update [])
  | "setdefault-old" => some (.setdefault cs!"X-A" cs!"v") | "setdefault-new" => some (.setdefault cs!"X-B" cs!"v")
  | _ => none

/-- **headers_view_readonly**: `__setitem__` and `__delitem__` raise `TypeError`, and no call sequence of the
mutators a `MutableMapping` offers (`h[k] = v`, `del h[k]`, `pop`, `popitem`, `clear`, `update`, `setdefault`)
changes the environ.  A call that does not raise is one that would not have changed a real dict either (`pop` of a
missing name with a default, `setdefault` of a present name, `update` with nothing, `clear` of a view in which nothing
readable is listed).  The live class answered the probe calls exactly as the model does, each leaving the environ
untouched (table tie). -/
theorem headers_view_readonly (e : Env) :
    (∀ k v, setitem e k v = (.error .typeError, e)) ∧ (∀ k, delitem e k = (.error .typeError, e)) ∧
    (∀ ops, (applyOps e ops).2 = e) ∧
    (∀ op out, (applyOp e op).1 = .ok out →
      (∃ k d, op = .pop k (some d) ∧ contains e k = false) ∨ (∃ k d, op = .setdefault k d ∧ contains e k = true) ∨
      op = .update [] ∨ (op = .clear ∧ ∀ k ∈ (keys e).head?, contains e k = false)) ∧
    (∀ r ∈ Gen.hpReadonlyOps, r.2.2 = true ∧ ∃ op, probeOp r.1 = some op ∧ outcomeName (applyOp probeEnv op).1 = r.2.1) := by
  refine ⟨fun _ _ => rfl, fun _ => rfl, applyOps_env e, ?_, by decide +kernel⟩
  intro op out h
  cases op with
  | setitem k v => cases h
  | delitem k => cases h
  | pop k d =>
    simp only [applyOp] at h
    unfold contains
    unfold getitem at h
    cases hg : e.get? (ekey k) with
    | none =>
      rw [hg] at h
      cases d with
      | none => cases h
      | some s => exact Or.inl ⟨k, s, rfl, by rw [hg]; rfl⟩
    | some v => rw [hg] at h; cases h
  | popitem =>
    simp only [applyOp, popitem] at h
    split at h
    · cases h
    · split at h <;> cases h
  | clear =>
    refine Or.inr (Or.inr (Or.inr ⟨rfl, ?_⟩))
    intro k hk
    simp only [applyOp, clear, popitem] at h
    cases hks : keys e with
    | nil => rw [hks] at hk; cases hk
    | cons k0 r =>
      rw [hks] at hk h
      simp only [List.head?_cons, Option.mem_def, Option.some.injEq] at hk
      subst hk
      simp only at h
      unfold contains
      unfold getitem at h
      cases hg : e.get? (ekey k0) with
      | none => rfl
      | some v => rw [hg] at h; cases h
  | update ps =>
    cases ps with
    | nil => exact Or.inr (Or.inr (Or.inl rfl))
    | cons p r => obtain ⟨k, v⟩ := p; cases h
  | setdefault k d =>
    simp only [applyOp] at h
    unfold contains
    unfold getitem at h
    cases hg : e.get? (ekey k) with
    | none => rw [hg] at h; cases h
    | some v => exact Or.inr (Or.inl ⟨k, d, rfl, by rw [hg]; rfl⟩)

/-- the names the view lists are the names under which the cache-layer model (`Model/EnvCache.lean`,
`cache_unobservable`) shows the `headers` observable -/
theorem headers_name_agrees_with_envcache (k : Str) : iterName k = Ombott.EnvCache.headerName k :=
  iterName_eq_envcache k

end Ombott.WsgiHeaders
