import OmbottModel.Lemmas.Cookies
namespace Ombott.Cookies
open Py

/-! ### the library contracts (DESIGN.md section 5) -/

/-- the base64 alphabet with padding -/
def isB64Nat (n : Nat) : Bool :=
  (65 ≤ n && n ≤ 90) || (97 ≤ n && n ≤ 122) || (48 ≤ n && n ≤ 57) || n == 43 || n == 47 || n == 61

def isB64Byte (x : UInt8) : Bool := isB64Nat x.toNat

/-- `base64`: output within the alphabet (so no `?`, `!`, `"`, `;`, `\`), decode inverts encode -/
structure B64Contract (L : Lib) : Prop where
  alphabet : ∀ x, ∀ c ∈ L.b64 x, isB64Byte c = true
  inverse : ∀ x, L.unb64 (L.b64 x) = some x

/-- `pickle.loads(pickle.dumps(x)) == x` -/
def PickleContract (L : Lib) : Prop := ∀ x, L.unpickle (L.pickle x) = some x

/-- a name `set_cookie` accepts and `SimpleCookie` reads back as a cookie: legal characters only,
not an attribute word, not the RFC 2109 `$` attribute syntax -/
def LegalName (n : Str) : Prop := isLegalKey n = true ∧ isReserved n = false ∧ n.head? ≠ some '$'

instance (n : Str) : Decidable (LegalName n) := by unfold LegalName; infer_instance

/-- `SimpleCookie(header)`: a header holding one pair `name=<what _quote printed>` is read as
that one cookie, its value passed through `_unquote` -/
def TokContract (L : Lib) : Prop :=
  ∀ name v, LegalName name → (∀ c ∈ v, c.toNat < 256) →
    L.load (name ++ '=' :: quote v) = .ok [(name, unquote (quote v))]

def b64Facts (n : Nat) : Bool :=
  !isB64Nat n || (wireSafe (Char.ofNat n) && n ≤ 127 && n != 59 && n != 63 && n != 33)

set_option maxRecDepth 100000 in
theorem b64_facts_all : ∀ n, n < 256 → b64Facts n = true := by decide

theorem b64_inj (L : Lib) (hb : B64Contract L) {x y : Bytes} (h : L.b64 x = L.b64 y) : x = y := by
  have := hb.inverse x
  rw [h, hb.inverse y] at this
  exact (Option.some.inj this).symm

theorem b64_no_qmark (L : Lib) (hb : B64Contract L) (x : Bytes) : (63 : UInt8) ∉ L.b64 x := by
  intro h
  have := hb.alphabet x 63 h
  revert this; decide

theorem lscmp_self (a : Bytes) : lscmp a a = true := (lscmp_iff_eq' a a).mpr rfl

theorem isEncoded_encode (L : Lib) (x : Str × CVal) (key : Bytes) : isEncoded (cookieEncode L x key) = true := by
  simp [isEncoded, cookieEncode]

theorem split_encode (L : Lib) (hb : B64Contract L) (x : Str × CVal) (key : Bytes) :
    splitFirst 63 (cookieEncode L x key) =
      some (33 :: L.b64 (L.hmac key (L.b64 (L.pickle x))), L.b64 (L.pickle x)) := by
  have : cookieEncode L x key = (33 :: L.b64 (L.hmac key (L.b64 (L.pickle x)))) ++ 63 :: L.b64 (L.pickle x) := by
    simp [cookieEncode]
  rw [this]
  apply splitFirst_append
  simp only [List.mem_cons, not_or]
  exact ⟨by decide, b64_no_qmark L hb _⟩

/-- a cookie signed with `key` and presented unchanged verifies, is unpickled exactly once and
yields the pair that was signed -/
theorem cookieDecode_genuine (L : Lib) (hb : B64Contract L) (hp : PickleContract L) (x : Str × CVal)
    (key : Bytes) : cookieDecode L (cookieEncode L x key) key = (.ok (some x), [L.pickle x]) := by
  unfold cookieDecode
  rw [isEncoded_encode, if_pos rfl, split_encode L hb]
  simp only [List.drop_succ_cons, List.drop_zero, lscmp_self, if_true, hb.inverse, hp x]

theorem cookieDecode_other_key (L : Lib) (hb : B64Contract L) (x : Str × CVal) (key key' : Bytes)
    (hk : L.hmac key' (L.b64 (L.pickle x)) ≠ L.hmac key (L.b64 (L.pickle x))) :
    cookieDecode L (cookieEncode L x key) key' = (.ok none, []) := by
  unfold cookieDecode
  rw [isEncoded_encode, if_pos rfl, split_encode L hb]
  simp only [List.drop_succ_cons, List.drop_zero]
  have : lscmp (L.b64 (L.hmac key (L.b64 (L.pickle x)))) (L.b64 (L.hmac key' (L.b64 (L.pickle x)))) = false := by
    rw [Bool.eq_false_iff]
    intro h
    exact hk (b64_inj L hb ((lscmp_iff_eq' _ _).mp h)).symm
  rw [this]
  rfl

end Ombott.Cookies
