import OmbottModel.Lemmas.Regex
import OmbottModel.Lemmas.Cookies
namespace Ombott.Cookies
open Py Py.Regex

def wsR : Re := .star (.cls isSpaceC) true
def bodyAtom : Re := .alt (.cls fun c => c != '\\' && c != '"') (.seq (chr '\\') (.cls (· != '\n')))
def quotedR : Re := seqs [chr '"', .star bodyAtom true, chr '"']
def expiresR : Re := seqs [.rep (.cls isWord) 3 3, chr ',', .cls isSpaceC,
    .rep (.cls fun c => isWord c || isSpaceC c || c == '-') 9 11, .cls isSpaceC,
    .rep (.cls fun c => isDigitC c || c == ':') 8 8, .cls isSpaceC, lit "GMT"]
def wordR : Re := .star (.cls isValChar) true
def valR : Re := .alt quotedR (.alt expiresR wordR)
def keyR : Re := .grp 0 (plus (.cls isKeyChar) false)
def groupR : Re := opt (seqs [wsR, chr '=', wsR, .grp 1 valR])
def tailR : Re := .alt (plus (.cls isSpaceC)) (.alt (chr ';') .eos)

theorem cookiePattern_eq : cookiePattern = seqs [wsR, keyR, groupR, wsR, tailR] := rfl

variable {R : Type}

/-- greedy white space before a character that is not white space (or the end) matches nothing -/
theorem ws_none (g : Nat) (s : List Char) (c : Caps) (k : List Char → Caps → Option R)
    (hs : s = [] ∨ ∃ y t, s = y :: t ∧ isSpaceC y = false) : m (g + 1) wsR s c k = k s c := by
  unfold wsR
  rw [m_star_greedy]
  rcases hs with rfl | ⟨y, t, rfl, hy⟩
  · rw [m_cls_nil, orElse'_none]
  · rw [m_cls_neg _ _ y t _ _ hy, orElse'_none]

theorem tail_nil (g : Nat) (c : Caps) (k : List Char → Caps → Option R) :
    m (g + 6) (.seq wsR tailR) [] c k = k [] c := by
  rw [m_seq, ws_none _ _ _ _ (Or.inl rfl)]
  unfold tailR plus chr
  rw [m_alt, m_seq, m_cls_nil, orElse'_none, m_alt, m_cls_nil, orElse'_none, m_eos_nil]

end Ombott.Cookies
