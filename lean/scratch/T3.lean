import OmbottModel.Py
open Py
def isOct (c : Char) (hi : Nat) : Bool := 48 ≤ c.toNat && c.toNat ≤ 48 + hi
def octVal (a b c : Char) : Char := Char.ofNat ((a.toNat - 48) * 64 + (b.toNat - 48) * 8 + (c.toNat - 48))
def unquoteGo : Nat → Str → Str
  | 0, _ => []
  | _ + 1, [] => []
  | f + 1, x :: t =>
    if x != '\\' then x :: unquoteGo f t else
    match t with
    | [] => [x]
    | a :: t1 =>
      if a == '\n' then '\\' :: unquoteGo f t
      else match t1 with
        | b :: c :: t3 =>
          if isOct a 3 && isOct b 7 && isOct c 7 then octVal a b c :: unquoteGo f t3
          else a :: unquoteGo f t1
        | _ => a :: unquoteGo f t1
def unquoteBody (s : Str) : Str := unquoteGo s.length s
example : unquoteBody "a\\\"b\\073\\351\\".toList = "a\"b;é\\".toList := by decide
example : unquoteBody "\\\n\\101\\\\101\\1".toList = "\\\nA\\1011".toList := by decide

theorem unquoteGo_fuel (f g : Nat) (s : Str) (hf : s.length ≤ f) (hg : s.length ≤ g) :
    unquoteGo f s = unquoteGo g s := by
  induction f generalizing g s with
  | zero =>
    have : s = [] := List.length_eq_zero_iff.mp (by omega)
    subst this
    cases g <;> rfl
  | succ f ih =>
    cases g with
    | zero =>
      have : s = [] := List.length_eq_zero_iff.mp (by omega)
      subst this; rfl
    | succ g =>
      cases s with
      | nil => rfl
      | cons x t =>
        simp only [List.length_cons] at hf hg
        unfold unquoteGo
        split
        · rw [ih g t (by omega) (by omega)]
        · cases t with
          | nil => rfl
          | cons a t1 =>
            simp only [List.length_cons] at hf hg
            simp only
            split
            · rw [ih g (a :: t1) (by simp; omega) (by simp; omega)]
            · cases t1 with
              | nil => simp only; rw [ih g [] (by simp) (by simp)]
              | cons b t2 =>
                cases t2 with
                | nil => simp only; rw [ih g [b] (by simp at *; omega) (by simp at *; omega)]
                | cons c t3 =>
                  simp only [List.length_cons] at hf hg
                  simp only
                  split
                  · rw [ih g t3 (by omega) (by omega)]
                  · rw [ih g (b :: c :: t3) (by simp; omega) (by simp; omega)]
