import OmbottModel.Props.C15
import OmbottModel.Lemmas.B64
namespace Ombott.Cookies
open Py

instance {ε α} [DecidableEq ε] [DecidableEq α] : DecidableEq (Except ε α)
  | .ok a, .ok b => if h : a = b then isTrue (h ▸ rfl) else isFalse (fun e => h (Except.ok.inj e))
  | .error a, .error b => if h : a = b then isTrue (h ▸ rfl) else isFalse (fun e => h (Except.error.inj e))
  | .ok _, .error _ => isFalse (fun e => nomatch e)
  | .error _, .ok _ => isFalse (fun e => nomatch e)

instance (L : Lib) (n v : Str) : Decidable (TokAt L n v) := by unfold TokAt; infer_instance
instance (L : Lib) (x : Str × CVal) : Decidable (PickleAt L x) := by unfold PickleAt; infer_instance

def exLib : Lib := concreteLib [(("sid".toList, .obj [49]), [128, 5, 75, 1, 46])]
def exKey : Bytes := [107, 101, 121]

example : B64Contract exLib := b64Contract_of_crypto exLib rfl rfl
example : LegalName "sid".toList := by decide
example : PickleAt exLib ("sid".toList, .obj [49]) := by decide +kernel
example : TokAt exLib "sid".toList (latin1Dec (cookieEncode exLib ("sid".toList, .obj [49]) exKey)) := by
  decide +kernel
example : roundTrip exLib "sid".toList (.obj [49]) exKey = (.ok (some (.obj [49])), [[128, 5, 75, 1, 46]]) :=
  signed_roundtrip exLib (b64Contract_of_crypto exLib rfl rfl) _ _ _ (by decide) (by decide)
    (by decide +kernel) (by decide +kernel) (by decide +kernel)
example : roundTrip exLib "n".toList (.text "€".toList) [] = (.ok (some (.text "â\x82¬".toList)), []) := by
  decide +kernel
#eval String.ofList (latin1Dec (cookieEncode exLib ("sid".toList, .obj [49]) exKey))
