import OmbottModel.Py.Text
open Py

theorem Char.toNat_ofNat_lt256 (n : Nat) (h : n < 256) : (Char.ofNat n).toNat = n := by
  unfold Char.ofNat
  have hv : n.isValidChar := by unfold Nat.isValidChar; omega
  simp [hv, Char.toNat, Char.ofNatAux]
  omega

theorem utf8EncodeChar_bytes (x : Char) (b : UInt8) (hb : b ∈ String.utf8EncodeChar x) :
    (x.toNat ≤ 127 ∧ b.toNat = x.toNat) ∨ (127 < x.toNat ∧ 128 ≤ b.toNat) := by
  unfold String.utf8EncodeChar at hb
  simp only [Char.toNat] at *
  split at hb
  · left
    simp only [List.mem_singleton] at hb
    subst hb
    rename_i h
    refine ⟨h, ?_⟩
    simp only [UInt8.toNat_ofNat']
    omega
  · right
    rename_i h
    refine ⟨by omega, ?_⟩
    split at hb
    · simp only [List.mem_cons, List.not_mem_nil, or_false] at hb
      rcases hb with rfl | rfl <;> simp only [UInt8.toNat_ofNat'] <;> omega
    · split at hb
      · simp only [List.mem_cons, List.not_mem_nil, or_false] at hb
        rcases hb with rfl | rfl | rfl <;> simp only [UInt8.toNat_ofNat'] <;> omega
      · simp only [List.mem_cons, List.not_mem_nil, or_false] at hb
        rcases hb with rfl | rfl | rfl | rfl <;> simp only [UInt8.toNat_ofNat'] <;> omega
