import OmbottModel.Model.WsgiHeaders
open Py Ombott.WsgiHeaders

theorem lower_iff (c : Char) : isAsciiLower c = true ↔ 97 ≤ c.toNat ∧ c.toNat ≤ 122 := by
  unfold isAsciiLower
  simp only [Bool.and_eq_true, decide_eq_true_eq, Char.le_def, Char.toNat]
  constructor
  · rintro ⟨h1, h2⟩
    have := UInt32.le_iff_toNat_le.mp h1
    have := UInt32.le_iff_toNat_le.mp h2
    constructor <;> simpa using ‹_›
  · rintro ⟨h1, h2⟩
    exact ⟨UInt32.le_iff_toNat_le.mpr (by simpa using h1), UInt32.le_iff_toNat_le.mpr (by simpa using h2)⟩

#print Char.toUpper
#print Char.toLower
#check @Char.ofNat_toNat
#check @Char.toNat_ofNat
