import OmbottModel.Py.Regex
namespace Py.Regex

variable {R : Type}

@[simp] theorem orElse'_none {α} (b : Unit → Option α) : orElse' none b = b () := rfl
@[simp] theorem orElse'_some {α} (x : α) (b : Unit → Option α) : orElse' (some x) b = some x := rfl

theorem m_zero (re : Re) (s : List Char) (c : Caps) (k : List Char → Caps → Option R) : m 0 re s c k = none := rfl

theorem m_eps (f : Nat) (s : List Char) (c : Caps) (k : List Char → Caps → Option R) :
    m (f + 1) .eps s c k = k s c := rfl

theorem m_eos_nil (f : Nat) (c : Caps) (k : List Char → Caps → Option R) : m (f + 1) .eos [] c k = k [] c := rfl

theorem m_eos_cons (f : Nat) (x : Char) (t : List Char) (c : Caps) (k : List Char → Caps → Option R) :
    m f .eos (x :: t) c k = none := by cases f <;> rfl

theorem m_cls_nil (f : Nat) (p : Char → Bool) (c : Caps) (k : List Char → Caps → Option R) :
    m f (.cls p) [] c k = none := by cases f <;> rfl

theorem m_cls_pos (f : Nat) (p : Char → Bool) (x : Char) (t : List Char) (c : Caps)
    (k : List Char → Caps → Option R) (h : p x = true) : m (f + 1) (.cls p) (x :: t) c k = k t c := by
  simp [m, h]

theorem m_cls_neg (f : Nat) (p : Char → Bool) (x : Char) (t : List Char) (c : Caps)
    (k : List Char → Caps → Option R) (h : p x = false) : m f (.cls p) (x :: t) c k = none := by
  cases f <;> simp [m, h]

theorem m_seq (f : Nat) (a b : Re) (s : List Char) (c : Caps) (k : List Char → Caps → Option R) :
    m (f + 1) (.seq a b) s c k = m f a s c fun s' c' => m f b s' c' k := rfl

theorem m_alt (f : Nat) (a b : Re) (s : List Char) (c : Caps) (k : List Char → Caps → Option R) :
    m (f + 1) (.alt a b) s c k = orElse' (m f a s c k) fun _ => m f b s c k := rfl

theorem m_grp (f : Nat) (i : Nat) (a : Re) (s : List Char) (c : Caps) (k : List Char → Caps → Option R) :
    m (f + 1) (.grp i a) s c k = m f a s c fun s' c' => k s' (capSet c' i (s, s')) := rfl

theorem m_star_greedy (f : Nat) (a : Re) (s : List Char) (c : Caps) (k : List Char → Caps → Option R) :
    m (f + 1) (.star a true) s c k =
      orElse' (m f a s c fun s' c' => if s'.length < s.length then m f (.star a true) s' c' k else none)
        fun _ => k s c := rfl

theorem m_star_lazy (f : Nat) (a : Re) (s : List Char) (c : Caps) (k : List Char → Caps → Option R) :
    m (f + 1) (.star a false) s c k =
      orElse' (k s c) fun _ =>
        m f a s c fun s' c' => if s'.length < s.length then m f (.star a false) s' c' k else none := rfl

theorem m_rep (f : Nat) (a : Re) (lo hi : Nat) (s : List Char) (c : Caps) (k : List Char → Caps → Option R) :
    m (f + 1) (.rep a lo hi) s c k =
      if hi = 0 then k s c else
      orElse' (m f a s c fun s' c' => m f (.rep a (lo - 1) (hi - 1)) s' c' k)
        fun _ => if lo = 0 then k s c else none := rfl

/-- the matcher only ever calls its continuation on suffixes of the input: if the continuation
fails on all of them, the match fails -/
theorem m_none_of_cont_none (f : Nat) (re : Re) (s : List Char) (c : Caps) (k : List Char → Caps → Option R)
    (hk : ∀ s' c', s' <:+ s → k s' c' = none) : m f re s c k = none := by
  induction f generalizing re s c k with
  | zero => rfl
  | succ f ih =>
    cases re with
    | eps => exact hk s c (List.suffix_refl s)
    | eos =>
      cases s with
      | nil => exact hk [] c (List.suffix_refl _)
      | cons x t => exact m_eos_cons _ x t c k
    | cls p =>
      cases s with
      | nil => rfl
      | cons x t =>
        by_cases hp : p x = true
        · rw [m_cls_pos f p x t c k hp]; exact hk t c (List.suffix_cons x t)
        · exact m_cls_neg _ p x t c k (by simpa using hp)
    | seq a b =>
      rw [m_seq]
      apply ih
      intro s' c' hs'
      apply ih
      intro s'' c'' hs''
      exact hk s'' c'' (hs''.trans hs')
    | alt a b =>
      rw [m_alt, ih a s c k hk, orElse'_none, ih b s c k hk]
    | star a g =>
      cases g with
      | true =>
        rw [m_star_greedy]
        rw [ih a s c _ (by
          intro s' c' hs'
          split
          · apply ih; intro s'' c'' hs''; exact hk s'' c'' (hs''.trans hs')
          · rfl)]
        exact hk s c (List.suffix_refl s)
      | false =>
        rw [m_star_lazy, hk s c (List.suffix_refl s), orElse'_none]
        apply ih
        intro s' c' hs'
        split
        · apply ih; intro s'' c'' hs''; exact hk s'' c'' (hs''.trans hs')
        · rfl
    | rep a lo hi =>
      rw [m_rep]
      split
      · exact hk s c (List.suffix_refl s)
      · rw [ih a s c _ (by
          intro s' c' hs'
          apply ih; intro s'' c'' hs''; exact hk s'' c'' (hs''.trans hs')), orElse'_none]
        split
        · exact hk s c (List.suffix_refl s)
        · rfl
    | grp i a =>
      rw [m_grp]
      apply ih
      intro s' c' hs'
      exact hk s' _ hs'

end Py.Regex
