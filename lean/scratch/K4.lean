import OmbottModel.Lemmas.CookieTok
namespace Ombott.Cookies
open Py Py.Regex

variable {R : Type}

theorem quote_head (v : Str) : ∃ y t, quote v = y :: t ∧ isSpaceC y = false := by
  unfold quote
  split
  · rename_i hl
    simp only [isLegalKey, Bool.and_eq_true, List.all_eq_true] at hl
    cases v with
    | nil => simp at hl
    | cons y t => exact ⟨y, t, rfl, (isLegal_tok (hl.2 y (by simp))).2.2.2.2.2.2⟩
  · exact ⟨'"', _, rfl, by decide⟩

/-- the value alternative matches all of `_quote(v)` -/
theorem val_success (v : Str) (hv : ∀ c ∈ v, c.toNat < 256) (c : Caps)
    (K : List Char → Caps → Option R) (r : R) (hK : K [] c = some r) (g : Nat)
    (hg : 3 * v.length + 12 ≤ g) : m g valR (quote v) c K = some r := by
  unfold quote
  split
  · rename_i hl
    simp only [isLegalKey, Bool.and_eq_true, List.all_eq_true, Bool.not_eq_eq_eq_not, Bool.not_true] at hl
    exact word_success v hl.2 (by intro h; subst h; simp at hl) c K r hK g (by omega)
  · obtain ⟨g', rfl⟩ : ∃ g', g = g' + 1 := ⟨g - 1, by omega⟩
    unfold valR
    rw [m_alt, quoted_success v hv c K r hK g' (by omega)]
    rfl

/-- `= value` after the key: the optional group matches and captures the whole coded value -/
theorem group_success (v : Str) (hv : ∀ c ∈ v, c.toNat < 256) (c : Caps)
    (K : List Char → Caps → Option R) (r : R) (hK : K [] (capSet c 1 (quote v, [])) = some r) (g : Nat)
    (hg : 3 * v.length + 20 ≤ g) : m g groupR ('=' :: quote v) c K = some r := by
  obtain ⟨g', rfl⟩ : ∃ g', g = g' + 7 := ⟨g - 7, by omega⟩
  simp only [groupR, opt, seqs, chr]
  rw [m_alt, m_seq, ws_none _ _ _ _ (Or.inr ⟨'=', _, rfl, by decide⟩), m_seq,
    m_cls_pos _ (fun x => x == '=') '=' _ _ _ (by decide), m_seq, ws_none _ _ _ _ (Or.inr (quote_head v)),
    m_grp, val_success v hv c _ r hK _ (by omega)]
  rfl

theorem tail_fail (x : Char) (t : List Char) (h1 : isSpaceC x = false) (h2 : x ≠ ';') (g : Nat) (c : Caps)
    (k : List Char → Caps → Option R) : m g (.seq wsR tailR) (x :: t) c k = none := by
  cases g with
  | zero => rfl
  | succ g =>
    rw [m_seq]
    cases g with
    | zero => rfl
    | succ g =>
      rw [ws_none _ _ _ _ (Or.inr ⟨x, t, rfl, h1⟩)]
      simp only [tailR, plus, chr]
      rw [m_alt]
      have e1 : m g (.seq (.cls isSpaceC) (.star (.cls isSpaceC) true)) (x :: t) c k = none := by
        cases g with
        | zero => rfl
        | succ g => rw [m_seq, m_cls_neg _ _ x t _ _ h1]
      rw [e1, orElse'_none]
      cases g with
      | zero => rfl
      | succ g =>
        rw [m_alt, m_cls_neg _ (fun y => y == ';') x t _ _ (by simpa using h2), orElse'_none, m_eos_cons]

/-- after a proper prefix of the name nothing but more name can follow: the rest of the pattern
fails on input that starts with a legal name character -/
theorem rest_fail (x : Char) (t : List Char) (hx : isLegal x = true) (g : Nat) (c : Caps)
    (k : List Char → Caps → Option R) : m g (seqs [groupR, wsR, tailR]) (x :: t) c k = none := by
  obtain ⟨_, _, h3, h4, _, _, h7⟩ := isLegal_tok hx
  simp only [seqs]
  cases g with
  | zero => rfl
  | succ g =>
    rw [m_seq]
    simp only [groupR, opt, seqs, chr]
    cases g with
    | zero => rfl
    | succ g =>
      rw [m_alt]
      have e1 : ∀ (K : List Char → Caps → Option R),
          m g (.seq wsR (.seq (.cls fun y => y == '=') (.seq wsR (.grp 1 valR)))) (x :: t) c K = none := by
        intro K
        cases g with
        | zero => rfl
        | succ g =>
          rw [m_seq]
          cases g with
          | zero => rfl
          | succ g =>
            rw [ws_none _ _ _ _ (Or.inr ⟨x, t, rfl, h7⟩), m_seq,
              m_cls_neg _ (fun y => y == '=') x t _ _ (by simpa using h3)]
      rw [e1, orElse'_none]
      cases g with
      | zero => rfl
      | succ g => rw [m_eps]; exact tail_fail x t h7 h4 _ c k

/-- the rest of the pattern after the key, on `=<coded value>` up to the end of the header -/
theorem rest_success (v : Str) (hv : ∀ c ∈ v, c.toNat < 256) (c : Caps)
    (k : List Char → Caps → Option R) (r : R) (hk : k [] (capSet c 1 (quote v, [])) = some r) (g : Nat)
    (hg : 3 * v.length + 30 ≤ g) : m g (seqs [groupR, wsR, tailR]) ('=' :: quote v) c k = some r := by
  obtain ⟨g', rfl⟩ : ∃ g', g = g' + 7 := ⟨g - 7, by omega⟩
  simp only [seqs]
  rw [m_seq]
  apply group_success v hv c _ r _ _ (by omega)
  rw [tail_nil]; exact hk

/-- the lazy key group takes exactly the name -/
theorem key_success (n0 : Char) (nr t : Str) (hn : ∀ x ∈ n0 :: nr, isLegal x = true) (c : Caps)
    (K : List Char → Caps → Option R) (r : R)
    (hfail : ∀ x s c', isLegal x = true → K (x :: s) c' = none)
    (hK : K t (capSet c 0 (n0 :: nr ++ t, t)) = some r) (g : Nat) (hg : nr.length + 5 ≤ g) :
    m g keyR (n0 :: nr ++ t) c K = some r := by
  obtain ⟨g', rfl⟩ : ∃ g', g = g' + 3 := ⟨g - 3, by omega⟩
  simp only [keyR, plus]
  rw [m_grp, m_seq, List.cons_append, m_cls_pos _ _ n0 _ _ _ (isLegal_tok (hn n0 (by simp))).2.2.2.2.2.1]
  apply star_lazy_cls isKeyChar nr t c _ r
  · intro x hx; exact (isLegal_tok (hn x (by simp [hx]))).2.2.2.2.2.1
  · intro i hi
    have hd : nr.drop i ≠ [] := by
      intro h
      have := congrArg List.length h
      simp at this; omega
    obtain ⟨y, ys, hy⟩ := List.exists_cons_of_ne_nil hd
    have hmem : y ∈ nr := by
      have : y ∈ nr.drop i := by rw [hy]; simp
      exact List.mem_of_mem_drop this
    rw [hy]
    exact hfail y _ _ (hn y (by simp [hmem]))
  · exact hK
  · omega

end Ombott.Cookies
