import OmbottModel.Drv.All
/-! Line-protocol driver: `lake env lean --run Driver.lean < ops`.  One answer line per input
line; `bad-op` for a line no model understands (never a default answer). -/
partial def loop (h : IO.FS.Stream) (out : IO.FS.Stream) (st : Drv.State) : IO Unit := do
  let line ← h.getLine
  if line.isEmpty then return ()
  let (st', ans) := Drv.step st line
  out.putStrLn ans
  loop h out st'
def main : IO Unit := do
  loop (← IO.getStdin) (← IO.getStdout) Drv.State.init
