import OmbottModel.Py
import OmbottModel.Model.Stream
import OmbottModel.Model.Range
import OmbottModel.Drv.All
