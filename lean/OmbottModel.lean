import OmbottModel.Py
import OmbottModel.Model.Stream
import OmbottModel.Model.Range
import OmbottModel.Model.Multipart
import OmbottModel.Model.MultipartSpec
import OmbottModel.Model.Forms
import OmbottModel.Model.BodyAccess
import OmbottModel.Drv.All
