import OmbottModel.Py
import OmbottModel.Model.Stream
import OmbottModel.Model.Range
import OmbottModel.Model.Multipart
import OmbottModel.Model.MultipartSpec
import OmbottModel.Drv.All
